#!/bin/sh
# usage: mutcheck.sh <prop> <patch.diff> [tier]  — applies a seeded change to /repo, runs the check, reverts.
prop=$1; patch=$2; tier=${3:-quick}
cd /repo && git apply "$patch" || { echo "PATCH DOES NOT APPLY"; exit 3; }
cd /verif && timeout ${MUT_TIMEOUT:-900} bin/symgo check --prop $prop --tier $tier 2>&1 | grep -E "VIOLATION|fingerprint|NOT-DECIDED|MACHINERY|UNCONFIRMED|^harness" ; 
cd /repo && git reset -q && git checkout -- . && git status --short | head -3
