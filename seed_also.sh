#!/bin/bash
# usage: seed_also.sh <seed-id> <prop> [<prop>...]  -- which OTHER properties' quick checks catch a seeded change
# appends "<id>: also caught by Cxx (<labels>)" lines to /verif/seeded/ALSO.md
id=$1; shift
export GOFLAGS=-mod=mod GOPROXY=off GOSUMDB=off GOTOOLCHAIN=local
wt=/tmp/seedalso_$$; git -C /repo worktree add -q --detach $wt HEAD || exit 3
git -C $wt apply /verif/seeded/$id/patch.diff || { git -C /repo worktree remove --force $wt; exit 3; }
BIN=/tmp/symgo_also_$$; cp /verif/bin/symgo $BIN
for prop in "$@"; do
  res=$(SYMGO_REPO=$wt SYMGO_REPLAYS=/tmp/seedalso_rp_$$ SYMGO_EVIDENCE=/tmp/seedalso_ev_$$ timeout ${TMO:-1500} $BIN check --prop $prop --jobs ${JOBS:-6} 2>&1)
  code=$?
  fps=$(echo "$res" | grep "fingerprint=" | sed 's/.*fingerprint=//' | awk '{print $1}' | sort -u | paste -sd' ')
  if [ $code = 1 ]; then
    sed -i "/^$id: also caught by $prop /d" /verif/seeded/ALSO.md 2>/dev/null
    echo "$id: also caught by $prop ($fps)" >> /verif/seeded/ALSO.md
    echo "$id: caught by $prop ($fps)"
  else
    echo "$id: $prop exit=$code"
  fi
done
git -C /repo worktree remove --force $wt; rm -rf $BIN /tmp/seedalso_rp_$$ /tmp/seedalso_ev_$$
