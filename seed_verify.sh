#!/bin/bash
# Verifies a seeded mutation independently in a scratch worktree and stores it under /verif/seeded/<id>.
# usage: seed_verify.sh <prop> <A|B> <srcdir>
prop=$1; tag=$2; src=$3
id="${prop}_${tag}"
export GOFLAGS=-mod=mod GOPROXY=off GOSUMDB=off GOTOOLCHAIN=local
wt=/tmp/seedwt_$id
rm -rf $wt; git -C /repo worktree prune; git -C /repo worktree add -q --detach $wt HEAD || exit 3
cd $wt
res_apply=ok
git apply "$src/patch.diff" 2>/dev/null || git apply -3 "$src/patch.diff" 2>/dev/null || res_apply=fail
pkg=$(grep -m1 '^package ' "$src/demo_test.go" | awk '{print $2}')
case $pkg in
  osm) dir=. ;; osmpbf) dir=osmpbf ;; annotate) dir=annotate ;; annotate_test) dir=annotate ;; osmapi) dir=osmapi ;; replication) dir=replication ;;
  osmgeojson) dir=osmgeojson ;; osmxml) dir=osmxml ;; core) dir=annotate/internal/core ;; mputil) dir=internal/mputil ;; osm_test) dir=. ;; osmpbf_test) dir=osmpbf ;; osmgeojson_test) dir=osmgeojson;; osmxml_test) dir=osmxml;; osmapi_test) dir=osmapi;; replication_test) dir=replication;; *) dir=. ;;
esac
tests=$(grep -o '^func Test[A-Za-z0-9_]*' "$src/demo_test.go" | sed 's/func //' | paste -sd'|')
suite=skip; demo_mut=skip; demo_clean=skip
if [ $res_apply = ok ]; then
  git diff HEAD > /tmp/seed_$id.diff
  if go build ./... >/dev/null 2>&1 && go test -vet=off -count=1 $(go list ./... | grep -v /osmpbf$) >/tmp/seed_$id.suite 2>&1 && go test -vet=off -count=1 -run '^$' ./osmpbf >/dev/null 2>&1; then suite=pass; else suite=FAIL; fi
  cp "$src/demo_test.go" $dir/zz_seed_demo_test.go
  if timeout 300 go test -vet=off -count=1 -run "^($tests)\$" ./$dir >/tmp/seed_$id.mut 2>&1; then demo_mut=PASS-unexpected; else demo_mut=fails; fi
  git checkout -q -- . 2>/dev/null; git reset -q; git checkout -q -- .
  if timeout 300 go test -vet=off -count=1 -run "^($tests)\$" ./$dir >/tmp/seed_$id.clean 2>&1; then demo_clean=passes; else demo_clean=FAILS-unexpected; fi
fi
echo "$id apply=$res_apply suite=$suite demo_with_mutation=$demo_mut demo_without=$demo_clean dir=$dir tests=$tests"
if [ $res_apply = ok ] && [ $suite = pass ] && [ $demo_mut = fails ] && [ $demo_clean = passes ]; then
  mkdir -p /verif/seeded/$id
  cp /tmp/seed_$id.diff /verif/seeded/$id/patch.diff
  cp "$src/demo_test.go" /verif/seeded/$id/demo_test.go
  [ -f "$src/README.md" ] && cp "$src/README.md" /verif/seeded/$id/README.agent.md
  python3 - "$id" "$prop" "$dir" "$tests" <<'PY'
import json,sys
id,prop,dir,tests=sys.argv[1:5]
readme=open(f'/verif/seeded/{id}/README.agent.md').read() if True else ''
meta={"id":id,"property":prop,"origin":"independent sub-agent given only the property text and a scratch worktree",
 "needs_to_manifest":"see README.agent.md (written by the sub-agent)",
 "verified_by_me":{"command":"seed_verify.sh","worktree":"/tmp/seedwt_"+id,"patch_applies_to_HEAD":True,"existing_suite_passes_with_mutation":True,
   "demo":{"package_dir":dir,"tests":tests,"fails_with_mutation":True,"passes_without":True}}}
json.dump(meta,open(f'/verif/seeded/{id}/meta.json','w'),indent=1)
PY
fi
cd /; git -C /repo worktree remove --force $wt 2>/dev/null; rm -rf $wt
