#!/usr/bin/env python3
# Generates MANIFEST.json from manifest_src.json (claimed checks) + properties.jsonl.
import json
src = json.load(open('/verif/manifest_src.json'))
props = [json.loads(l) for l in open('/verif/properties.jsonl')]
checks, na = [], []
for p in props:
    pid = p['id']
    if pid in src['claimed']:
        c = src['claimed'][pid]
        checks.append({
            "property_id": pid,
            "quick_cmd": f"bin/symgo check --prop {pid} --tier quick",
            "thorough_cmd": f"bin/symgo check --prop {pid} --tier thorough",
            "evidence_file": f"/verif/evidence/{pid}.json",
            "replay_cmd_template": "sh {path}/run.sh",
            "engine": "symgo",
            "level_claimed": {"category": "other", "text": c['text'], "design_ref": c.get('design_ref', 'DESIGN.md §4 ' + pid)},
            "level_note": c['note'],
            "technique": c.get('technique', "bounded symbolic execution of the real Go code (go/ssa -> SMT-LIB bit-vectors/floats), z3/cvc5 decide every branch and assertion; counterexamples replayed natively"),
        })
    else:
        na.append({"property_id": pid, "reason": src['not_applicable'].get(pid, "check not built yet in this family (solver-based symbolic execution); see DESIGN.md")})
m = {
    "version": 1,
    "setup_cmd": "cd /verif/engine && GOFLAGS=-mod=mod GOPROXY=off GOSUMDB=off GOTOOLCHAIN=local go build -o /verif/bin/symgo . && mkdir -p /verif/evidence /verif/replays",
    "hooks": {"guard": "verif", "enable": "go build/test -tags verif with harness files injected by -overlay (no files added to /repo)",
              "baseline_off_cmd": "cd /repo && GOFLAGS=-mod=mod go test -vet=off -count=1 ./...", "source_commits": [], "add_only": True},
    "engines": [{"name": "symgo", "path": "/verif/engine", "serves_properties": sorted(src['claimed'].keys()),
                 "kind_free_text": "SSA-level forking symbolic executor for Go written for this task; SMT back ends z3 4.8.12 / cvc5 1.0"}],
    "checks": checks,
    "not_applicable": na,
    "notes": src.get('notes', ''),
}
json.dump(m, open('/verif/MANIFEST.json', 'w'), indent=1)
print(len(checks), 'checks,', len(na), 'not applicable')
