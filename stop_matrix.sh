#!/bin/bash
# stops a running seed_matrix.sh and removes its scratch worktrees / snapshots
for p in $(pgrep -f 'seed_matrix\.sh'); do [ "$p" != "$$" ] && kill "$p" 2>/dev/null; done
for p in $(pgrep -f '/tmp/symgo_matrix_[0-9]+ check'); do kill "$p" 2>/dev/null; done
sleep 1
git -C /repo worktree prune
for d in /tmp/mutwt_*; do
  [ -d "$d" ] && { git -C /repo worktree remove --force "$d" 2>/dev/null; rm -rf "$d"; }
done
rm -rf /tmp/symgo_matrix_snap_* /tmp/symgo_matrix_[0-9]* /tmp/mutreplays /tmp/mutev
git -C /repo worktree list
