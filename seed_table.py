#!/usr/bin/env python3
# Builds /verif/seeded/SUMMARY.md from seeded/*/README.agent.md and seeded/MATRIX.md.
import os, re
rows = {}
for line in open('/verif/seeded/MATRIX.md'):
    m = re.match(r'\| (C\d\d_[A-Z]) \| (\S+) quick \| ([^|]+) \| (.*) \|$', line.strip())
    if m:
        rows[m.group(1)] = (m.group(3).strip(), m.group(4).strip())
extra = {}
if os.path.exists('/verif/seeded/ALSO.md'):
    for line in open('/verif/seeded/ALSO.md'):
        m = re.match(r'(C\d\d_[A-Z]):\s*(.*)', line.strip())
        if m:
            extra[m.group(1)] = (extra.get(m.group(1), '') + '; ' if m.group(1) in extra else '') + m.group(2)
out = ['| change | what it is (sub-agent\'s title) | own property\'s quick check | assertions that fail / note |', '|---|---|---|---|']
n = {'YES': 0}
tot = 0
for d in sorted(os.listdir('/verif/seeded')):
    if not re.match(r'C\d\d_[A-Z]$', d):
        continue
    tot += 1
    title = ''
    p = f'/verif/seeded/{d}/README.agent.md'
    if os.path.exists(p):
        title = open(p).readline().strip().lstrip('# ').replace('|', '/')
    det, fps = rows.get(d, ('not run', ''))
    n[det] = n.get(det, 0) + 1
    labs = sorted(set(x.split('/', 1)[1] for x in re.findall(r'C\d\d/\S+', fps)))
    note = ' '.join(labs[:3]) + (' …' if len(labs) > 3 else '')
    if d in extra:
        note = (note + ' — ' if note else '') + extra[d]
    out.append(f'| {d} | {title[:110]} | {det} | {note} |')
open('/verif/seeded/SUMMARY.md', 'w').write(f'{tot} seeded changes; detected by their own property\'s quick check: {n.get("YES",0)}; other outcomes: ' + ', '.join(f'{k}: {v}' for k, v in n.items() if k != 'YES') + '\n\n' + '\n'.join(out) + '\n')
print(tot, n)
