package main

// Intrinsics: harness runtime (v* functions) and leaf standard-library routines
// that have no Go body (assembly, runtime linknames, unsafe tricks).

import (
	"encoding/json"
	"fmt"
	"go/types"
	"reflect"
	"math"
	"strings"

	"golang.org/x/tools/go/ssa"
)

type callCtx struct {
	g     *Goroutine
	fn    *ssa.Function
	args  []Value
	retTo ssa.Value
}

type intrinsic func(in *Interp, c *callCtx) Value

var intrinsics = map[string]intrinsic{}
var rtIntrinsics = map[string]intrinsic{}

func initAllowed(path string) bool {
	switch path {
	case "os", "syscall", "runtime", "net", "net/http", "reflect", "internal/reflectlite", "internal/poll",
		"os/signal", "crypto/rand", "encoding/json", "encoding/xml", "log", "testing", "internal/godebug",
		"unicode", "compress/flate", "compress/zlib", "compress/gzip", "crypto/tls", "mime", "net/textproto",
		"google.golang.org/protobuf/proto", "internal/cpu", "internal/bytealg", "hash/crc32",
		"github.com/datadog/czlib", "vendor/golang.org/x/net/http2/hpack", "math/rand", "math/big":
		return false
	}
	if strings.HasPrefix(path, "google.golang.org/protobuf") || strings.HasSuffix(path, "/osmpbf/internal/osmpbf") || strings.HasPrefix(path, "runtime/") ||
		strings.HasPrefix(path, "internal/") && path != "internal/itoa" && path != "internal/stringslite" ||
		strings.HasPrefix(path, "crypto/") || strings.HasPrefix(path, "vendor/") || strings.HasPrefix(path, "golang.org/x/net") {
		return false
	}
	return true
}

func isRT(fn *ssa.Function, prog *ssa.Program) bool {
	if fn.Pkg == nil || !fn.Pos().IsValid() {
		return false
	}
	f := prog.Fset.Position(fn.Pos()).Filename
	return strings.Contains(f, "zz_verif_rt")
}

func (in *Interp) mkError(msg string) Value {
	// *errors.errorString{s: msg}
	ep := in.prog.ImportedPackage("errors")
	if ep == nil {
		return Iface{t: types.Typ[types.String], v: Str{s: msg}}
	}
	t := ep.Type("errorString").Type()
	c := in.newCell(t)
	c.sub[0].v = Str{s: msg}
	return Iface{t: types.NewPointer(t), v: Ptr{c}}
}

func (in *Interp) newVar(name string, s Sort, kind string) *Term {
	k := in.varNames[name]
	in.varNames[name] = k + 1
	full := fmt.Sprintf("%s#%d", name, k)
	in.varKinds[full] = kind
	if in.concrete {
		v := in.script[full]
		var t *Term
		switch s.K {
		case KBool:
			t = in.tt.Bool(v != 0)
		default:
			t = in.tt.Const(s.W, v)
		}
		return t
	}
	t := in.tt.Var(full, s)
	in.vars = append(in.vars, t)
	return t
}

func argStr(v Value) string {
	s, ok := v.(Str).Concrete()
	if !ok {
		panic(pathEnd{kind: "internal", msg: "intrinsic name/label argument must be a constant string"})
	}
	return s
}

func argInt(v Value) int {
	t := v.(*Term)
	if !t.IsConst() {
		panic(pathEnd{kind: "internal", msg: "intrinsic bound argument must be concrete"})
	}
	return int(t.I64())
}

func init() {
	mkInt := func(w int, kind string) intrinsic {
		return func(in *Interp, c *callCtx) Value { return in.newVar(argStr(c.args[0]), BV(w), kind) }
	}
	rtIntrinsics["vInt64"] = mkInt(64, "i64")
	rtIntrinsics["vInt"] = mkInt(64, "i64")
	rtIntrinsics["vI32"] = mkInt(32, "i32")
	rtIntrinsics["vU64"] = mkInt(64, "u64")
	rtIntrinsics["vU32"] = mkInt(32, "u32")
	rtIntrinsics["vU16"] = mkInt(16, "u16")
	rtIntrinsics["vByte"] = mkInt(8, "u8")
	rtIntrinsics["vBool"] = func(in *Interp, c *callCtx) Value { return in.newVar(argStr(c.args[0]), SBool, "bool") }
	rtIntrinsics["vF64"] = func(in *Interp, c *callCtx) Value {
		b := in.newVar(argStr(c.args[0]), BV(64), "f64bits")
		return in.tt.FFromBits(b)
	}
	rtIntrinsics["vRange"] = func(in *Interp, c *callCtx) Value {
		name := argStr(c.args[0])
		lo, hi := argInt(c.args[1]), argInt(c.args[2])
		k := in.varNames[name]
		in.varNames[name] = k + 1
		full := fmt.Sprintf("%s#%d", name, k)
		in.varKinds[full] = "range"
		if in.concrete {
			return in.tt.Const(64, in.script[full])
		}
		if hi < lo {
			panic(pathEnd{kind: "assume", msg: "empty vRange"})
		}
		v := lo + in.decideFree(hi-lo+1)
		if in.ranges == nil {
			in.ranges = map[string]uint64{}
		}
		in.ranges[full] = uint64(int64(v))
		return in.tt.Const(64, uint64(int64(v)))
	}
	rtIntrinsics["vStr"] = func(in *Interp, c *callCtx) Value {
		name, n := argStr(c.args[0]), argInt(c.args[1])
		b := make([]*Term, n)
		for i := range b {
			b[i] = in.newVar(name, BV(8), "u8")
		}
		return in.mkStr(b)
	}
	rtIntrinsics["vBytes"] = func(in *Interp, c *callCtx) Value {
		name, n := argStr(c.args[0]), argInt(c.args[1])
		arr := in.newArray(types.Typ[types.Uint8], n)
		for i := 0; i < n; i++ {
			in.elem(arr, i).v = in.newVar(name, BV(8), "u8")
		}
		return SliceV{arr: arr, len: n, cap: n}
	}
	rtIntrinsics["vAssume"] = func(in *Interp, c *callCtx) Value {
		in.assume(in.exact(c.args[0].(*Term)))
		return nil
	}
	rtIntrinsics["vAssert"] = func(in *Interp, c *callCtx) Value {
		in.assertProp(c.args[0].(*Term), argStr(c.args[1]))
		return nil
	}
	rtIntrinsics["vReach"] = func(in *Interp, c *callCtx) Value {
		in.reached[argStr(c.args[0])] = true
		return nil
	}
	rtIntrinsics["vNote"] = func(in *Interp, c *callCtx) Value {
		if len(in.notes) < 32 {
			in.notes = append(in.notes, argStr(c.args[0]))
		}
		return nil
	}
	rtIntrinsics["vAnd"] = func(in *Interp, c *callCtx) Value {
		a, b := c.args[0].(*Term), c.args[1].(*Term)
		r := in.tt.And(a, b)
		in.setExact(r, in.tt.And(in.exact(a), in.exact(b)))
		return r
	}
	rtIntrinsics["vOr"] = func(in *Interp, c *callCtx) Value {
		a, b := c.args[0].(*Term), c.args[1].(*Term)
		r := in.tt.Or(a, b)
		in.setExact(r, in.tt.Or(in.exact(a), in.exact(b)))
		return r
	}
	// negative positions take the exact comparison (the strong one would be too weak there)
	rtIntrinsics["vNot"] = func(in *Interp, c *callCtx) Value { return in.tt.Not(in.exact(c.args[0].(*Term))) }
	rtIntrinsics["vImplies"] = func(in *Interp, c *callCtx) Value {
		a, b := in.exact(c.args[0].(*Term)), c.args[1].(*Term)
		r := in.tt.Implies(a, b)
		in.setExact(r, in.tt.Implies(a, in.exact(b)))
		return r
	}
	rtIntrinsics["vIteInt64"] = func(in *Interp, c *callCtx) Value {
		return in.tt.Ite(c.args[0].(*Term), c.args[1].(*Term), c.args[2].(*Term))
	}
	rtIntrinsics["vIteInt"] = rtIntrinsics["vIteInt64"]
	rtIntrinsics["vDec"] = func(in *Interp, c *callCtx) Value {
		return in.mkRope([]piece{{kind: 2, dec: c.args[0].(*Term), sign: true}})
	}
	rtIntrinsics["vB2U"] = func(in *Interp, c *callCtx) Value {
		return in.tt.Ite(c.args[0].(*Term), in.tt.Const(64, 1), in.tt.Const(64, 0))
	}
	rtIntrinsics["vSame"] = func(in *Interp, c *callCtx) Value {
		before := in.congUsed
		s := in.deepEq(c.args[0], c.args[1], nil, map[[2]*Cell]bool{}, 0)
		if in.congUsed != before {
			// congruence was used somewhere: also build the exact comparison; the strong
			// term is tried first, the exact one only when the strong one is not implied
			in.noCong = true
			r := in.deepEq(c.args[0], c.args[1], nil, map[[2]*Cell]bool{}, 0)
			in.noCong = false
			in.setExact(s, r)
		}
		return s
	}
	rtIntrinsics["vSnapshot"] = func(in *Interp, c *callCtx) Value {
		return in.deepCopy(c.args[0], map[*Cell]*Cell{}, map[*MapObj]*MapObj{})
	}
	rtIntrinsics["vQuiesce"] = func(in *Interp, c *callCtx) Value {
		in.quiesce(c.g)
		return nil
	}
	// vYield: the caller lets every other goroutine run until it blocks (natively a short sleep)
	rtIntrinsics["vYield"] = rtIntrinsics["vQuiesce"]
	mkZ := func(marker byte) intrinsic {
		return func(in *Interp, c *callCtx) Value {
			raw := in.sliceBytes(c.args[0].(SliceV))
			b := append([]*Term{in.tt.Const(8, uint64(marker)), in.tt.Const(8, 'Z')}, raw...)
			return in.bytesToSlice(b)
		}
	}
	rtIntrinsics["vZlib"] = mkZ(0xFE)
	rtIntrinsics["vZlibCorrupt"] = mkZ(0xFD)
	rtIntrinsics["vSleep"] = func(in *Interp, c *callCtx) Value {
		in.schedPoint(c.g, "sleep")
		return nil
	}
	rtIntrinsics["vGoroutines"] = func(in *Interp, c *callCtx) Value {
		n := 0
		for _, g := range in.gs {
			if g != c.g && g.status != gDone {
				n++
			}
		}
		return in.tt.Const(64, uint64(n))
	}
	rtIntrinsics["vSymbolic"] = func(in *Interp, c *callCtx) Value { return in.tt.Bool(!in.concrete) }
	rtIntrinsics["vParam"] = func(in *Interp, c *callCtx) Value {
		name := argStr(c.args[0])
		def := argInt(c.args[1])
		if v, ok := in.cfg.Params[name]; ok {
			def = v
		}
		return in.tt.Const(64, uint64(int64(def)))
	}

	// ---- internal/bytealg
	intrinsics["internal/bytealg.IndexByteString"] = func(in *Interp, c *callCtx) Value {
		return in.indexByte(in.strBytes(c.args[0].(Str)), c.args[1].(*Term))
	}
	intrinsics["internal/bytealg.IndexByte"] = func(in *Interp, c *callCtx) Value {
		return in.indexByte(in.sliceBytes(c.args[0].(SliceV)), c.args[1].(*Term))
	}
	intrinsics["internal/bytealg.CountString"] = func(in *Interp, c *callCtx) Value {
		return in.countByte(in.strBytes(c.args[0].(Str)), c.args[1].(*Term))
	}
	intrinsics["internal/bytealg.Count"] = func(in *Interp, c *callCtx) Value {
		return in.countByte(in.sliceBytes(c.args[0].(SliceV)), c.args[1].(*Term))
	}
	intrinsics["internal/bytealg.Equal"] = func(in *Interp, c *callCtx) Value {
		a, b := in.sliceBytes(c.args[0].(SliceV)), in.sliceBytes(c.args[1].(SliceV))
		return in.strEq(in.mkStr(a), in.mkStr(b))
	}
	intrinsics["bytes.Equal"] = intrinsics["internal/bytealg.Equal"]
	intrinsics["internal/bytealg.Compare"] = func(in *Interp, c *callCtx) Value {
		a, b := in.mkStr(in.sliceBytes(c.args[0].(SliceV))), in.mkStr(in.sliceBytes(c.args[1].(SliceV)))
		tt := in.tt
		return tt.Ite(in.strLess(a, b), tt.Const(64, ^uint64(0)), tt.Ite(in.strEq(a, b), tt.Const(64, 0), tt.Const(64, 1)))
	}
	intrinsics["internal/bytealg.IndexString"] = func(in *Interp, c *callCtx) Value {
		return in.indexString(c.args[0].(Str), c.args[1].(Str))
	}
	intrinsics["internal/bytealg.Index"] = func(in *Interp, c *callCtx) Value {
		return in.indexString(in.mkStr(in.sliceBytes(c.args[0].(SliceV))), in.mkStr(in.sliceBytes(c.args[1].(SliceV))))
	}
	intrinsics["internal/bytealg.MakeNoZero"] = func(in *Interp, c *callCtx) Value {
		n := argInt(c.args[0])
		return SliceV{arr: in.newArray(types.Typ[types.Uint8], n), len: n, cap: n}
	}
	intrinsics["internal/stringslite.Clone"] = func(in *Interp, c *callCtx) Value { return c.args[0] }
	intrinsics["strings.Clone"] = func(in *Interp, c *callCtx) Value { return c.args[0] }
	intrinsics["strings.Index"] = func(in *Interp, c *callCtx) Value {
		return in.indexString(c.args[0].(Str), c.args[1].(Str))
	}
	intrinsics["strings.ToLower"] = func(in *Interp, c *callCtx) Value {
		s := c.args[0].(Str)
		if cs, ok := s.Concrete(); ok {
			return Str{s: strings.ToLower(cs)}
		}
		tt := in.tt
		out := make([]*Term, s.Len())
		for i := range out {
			b := in.strByte(s, i)
			if !b.IsConst() {
				// stub contract: ASCII only
				in.assumeStub(tt.Cmp(OpUlt, b, tt.Const(8, 0x80)), "strings.ToLower: non-ASCII bytes excluded")
			} else if b.val >= 0x80 {
				in.unsupported("strings.ToLower on mixed symbolic/non-ASCII string")
			}
			up := tt.And(tt.Cmp(OpUle, tt.Const(8, 'A'), b), tt.Cmp(OpUle, b, tt.Const(8, 'Z')))
			out[i] = tt.Ite(up, tt.Bin(OpAdd, b, tt.Const(8, 32)), b)
		}
		return in.mkStr(out)
	}

	// ---- strings.Builder (unsafe inside)
	intrinsics["(*strings.Builder).copyCheck"] = func(in *Interp, c *callCtx) Value { return nil }
	intrinsics["(*strings.Builder).String"] = func(in *Interp, c *callCtx) Value {
		p := c.args[0].(Ptr)
		buf := in.load(p.c.sub[1]).(SliceV)
		return in.mkStr(in.sliceBytes(buf))
	}

	// ---- math
	intrinsics["math.Float64bits"] = func(in *Interp, c *callCtx) Value {
		b, ok := in.tt.FToBits(c.args[0].(*Term))
		if !ok {
			in.unsupported("math.Float64bits of a computed symbolic float")
		}
		return b
	}
	intrinsics["math.Float32bits"] = intrinsics["math.Float64bits"]
	intrinsics["math.Float64frombits"] = func(in *Interp, c *callCtx) Value { return in.tt.FFromBits(c.args[0].(*Term)) }
	intrinsics["math.Float32frombits"] = intrinsics["math.Float64frombits"]
	intrinsics["math.Abs"] = func(in *Interp, c *callCtx) Value {
		x := c.args[0].(*Term)
		if x.IsConst() {
			return in.tt.F64(math.Abs(x.F64()))
		}
		tt := in.tt
		return tt.Ite(tt.FCmp(OpFLt, x, tt.F64(0)), tt.FNeg(x), x)
	}
	concF := func(name string, f func(float64) float64) {
		intrinsics[name] = func(in *Interp, c *callCtx) Value {
			x := c.args[0].(*Term)
			if !x.IsConst() {
				in.unsupported("%s of symbolic float", name)
			}
			return in.tt.F64(f(x.F64()))
		}
	}
	concF("math.Floor", math.Floor)
	concF("math.Ceil", math.Ceil)
	concF("math.Sqrt", math.Sqrt)
	concF("math.Trunc", math.Trunc)
	concF("math.Sin", math.Sin)
	concF("math.Cos", math.Cos)
	concF("math.Tan", math.Tan)
	concF("math.Atan", math.Atan)
	concF("math.Exp", math.Exp)
	concF("math.Log", math.Log)
	concF("math.Sinh", math.Sinh)
	concF("math.Asin", math.Asin)
	intrinsics["math.Atan2"] = func(in *Interp, c *callCtx) Value {
		x, y := c.args[0].(*Term), c.args[1].(*Term)
		if !x.IsConst() || !y.IsConst() {
			in.unsupported("math.Atan2 symbolic")
		}
		return in.tt.F64(math.Atan2(x.F64(), y.F64()))
	}
	intrinsics["math.Pow"] = func(in *Interp, c *callCtx) Value {
		x, y := c.args[0].(*Term), c.args[1].(*Term)
		if !x.IsConst() || !y.IsConst() {
			in.unsupported("math.Pow symbolic")
		}
		return in.tt.F64(math.Pow(x.F64(), y.F64()))
	}
	intrinsics["math.Mod"] = func(in *Interp, c *callCtx) Value {
		x, y := c.args[0].(*Term), c.args[1].(*Term)
		if !x.IsConst() || !y.IsConst() {
			in.unsupported("math.Mod symbolic")
		}
		return in.tt.F64(math.Mod(x.F64(), y.F64()))
	}

	// ---- runtime / time leafs
	nop := func(in *Interp, c *callCtx) Value { return nil }
	intrinsics["runtime.Gosched"] = func(in *Interp, c *callCtx) Value {
		in.schedPoint(c.g, "gosched")
		return nil
	}
	intrinsics["runtime.KeepAlive"] = nop
	intrinsics["runtime.SetFinalizer"] = nop
	intrinsics["runtime.GOMAXPROCS"] = func(in *Interp, c *callCtx) Value { return in.tt.Const(64, 4) }
	intrinsics["runtime.NumCPU"] = func(in *Interp, c *callCtx) Value { return in.tt.Const(64, 4) }
	intrinsics["time.runtimeNano"] = func(in *Interp, c *callCtx) Value { return in.tt.Const(64, 1000) }
	intrinsics["time.now"] = func(in *Interp, c *callCtx) Value {
		return Tuple{in.tt.Const(64, 1700000000), in.tt.Const(32, 0), in.tt.Const(64, 2000)}
	}
	intrinsics["time.Sleep"] = func(in *Interp, c *callCtx) Value {
		in.schedPoint(c.g, "sleep")
		return nil
	}
	intrinsics["runtime.GOROOT"] = func(in *Interp, c *callCtx) Value { return Str{s: "/goroot"} }
	intrinsics["os.Getenv"] = func(in *Interp, c *callCtx) Value { return Str{} }
	intrinsics["syscall.Getenv"] = func(in *Interp, c *callCtx) Value { return Tuple{Str{}, in.tt.False} }
	intrinsics["internal/godebug.New"] = func(in *Interp, c *callCtx) Value { return Ptr{} }
	intrinsics["(*internal/godebug.Setting).Value"] = func(in *Interp, c *callCtx) Value { return Str{} }
	intrinsics["(*internal/godebug.Setting).IncNonDefault"] = nop
	intrinsics["internal/race.Acquire"] = nop
	intrinsics["internal/race.Release"] = nop
	intrinsics["internal/race.ReleaseMerge"] = nop
	intrinsics["internal/race.Enable"] = nop
	intrinsics["internal/race.Disable"] = nop
	intrinsics["internal/race.Read"] = nop
	intrinsics["internal/race.Write"] = nop
	intrinsics["internal/race.ReadRange"] = nop
	intrinsics["internal/race.WriteRange"] = nop

	// package osm's init parses its embedded polygon rule table with encoding/json
	// (reflection); the table is loaded from a native dump instead (see loadPolyDump).
	intrinsics["encoding/json.Unmarshal"] = func(in *Interp, c *callCtx) Value {
		if len(c.g.frames) > 0 && strings.HasSuffix(c.g.frames[len(c.g.frames)-1].fn.String(), "osm.init#1") {
			// the embedded rule table: concrete JSON text, decoded by the engine's own
			// encoding/json into the target's Go type (json struct tags from go/types)
			txt, ok := in.mkStr(in.sliceBytes(c.args[0].(SliceV))).Concrete()
			if !ok {
				in.unsupported("json.Unmarshal of symbolic text")
			}
			var doc interface{}
			if err := json.Unmarshal([]byte(txt), &doc); err != nil {
				return in.mkError("json: " + err.Error())
			}
			target := c.args[1].(Iface)
			pt := target.t.Underlying().(*types.Pointer)
			in.store(target.v.(Ptr).c, in.jsonToValue(doc, pt.Elem()))
			in.stubsHit["encoding/json.Unmarshal of the embedded polygon table (decoded natively by the engine)"]++
			return Iface{}
		}
		// concrete text into *map[string]string (Tags.UnmarshalJSON): the documented
		// behaviour of encoding/json: a nil map is allocated, an existing map is reused and
		// keeps its entries, every string member is stored, a member of another JSON type
		// is skipped and reported as the (first) error after the rest has been decoded
		if target, ok := c.args[1].(Iface); ok && target.t != nil {
			if pt, ok := target.t.Underlying().(*types.Pointer); ok {
				if mt, ok := pt.Elem().Underlying().(*types.Map); ok && isString(mt.Key()) && isString(mt.Elem()) {
					txt, ok := in.mkStr(in.sliceBytes(c.args[0].(SliceV))).Concrete()
					if !ok {
						in.unsupported("json.Unmarshal of symbolic text into a map")
					}
					return in.jsonIntoStringMap(txt, target.v.(Ptr).c, mt)
				}
			}
		}
		in.unsupported("encoding/json.Unmarshal (reflection) outside the known init")
		return nil
	}
	intrinsics["internal/reflectlite.TypeOf"] = func(in *Interp, c *callCtx) Value { return Iface{t: opaqueT} }
	intrinsics["reflect.TypeOf"] = func(in *Interp, c *callCtx) Value { return Iface{t: opaqueT} }
	// ---- errors.Is / errors.As use reflectlite
	intrinsics["errors.Is"] = func(in *Interp, c *callCtx) Value { return in.errorsIs(c.g, c.args[0].(Iface), c.args[1].(Iface)) }
}

func (in *Interp) assumeStub(cnd *Term, what string) {
	in.stubsHit["assume:"+what]++
	in.assume(cnd)
}

func (in *Interp) sliceBytes(s SliceV) []*Term {
	r := make([]*Term, s.len)
	for i := 0; i < s.len; i++ {
		r[i] = in.load(in.elem(s.arr, s.off+i)).(*Term)
	}
	return r
}

func (in *Interp) bytesToSlice(b []*Term) SliceV {
	arr := in.newArray(types.Typ[types.Uint8], len(b))
	for i, t := range b {
		in.elem(arr, i).v = t
	}
	return SliceV{arr: arr, len: len(b), cap: len(b)}
}

// indexByte returns the first index of byte c (or -1) as an ite chain.
func (in *Interp) indexByte(b []*Term, c *Term) Value {
	tt := in.tt
	r := tt.Const(64, ^uint64(0))
	for i := len(b) - 1; i >= 0; i-- {
		r = tt.Ite(tt.Eq(b[i], c), tt.Const(64, uint64(i)), r)
	}
	return r
}

func (in *Interp) countByte(b []*Term, c *Term) Value {
	tt := in.tt
	r := tt.Const(64, 0)
	for i := range b {
		r = tt.Bin(OpAdd, r, tt.Ite(tt.Eq(b[i], c), tt.Const(64, 1), tt.Const(64, 0)))
	}
	return r
}

func (in *Interp) indexString(s, sub Str) Value {
	tt := in.tt
	if cs, ok := s.Concrete(); ok {
		if cb, ok := sub.Concrete(); ok {
			return tt.Const(64, uint64(int64(strings.Index(cs, cb))))
		}
	}
	n, m := s.Len(), sub.Len()
	r := tt.Const(64, ^uint64(0))
	for i := n - m; i >= 0; i-- {
		eq := tt.True
		for j := 0; j < m; j++ {
			eq = tt.And(eq, tt.Eq(in.strByte(s, i+j), in.strByte(sub, j)))
		}
		r = tt.Ite(eq, tt.Const(64, uint64(i)), r)
	}
	return r
}

func (in *Interp) errorsIs(g *Goroutine, err, target Iface) Value {
	tt := in.tt
	for depth := 0; depth < 16; depth++ {
		if err.t == nil {
			return tt.Bool(target.t == nil)
		}
		if target.t != nil && types.Identical(err.t, target.t) && types.Comparable(err.t) {
			eq := in.eqVal(err.v, target.v)
			if in.branch(eq) {
				return tt.True
			}
		}
		// Is method
		if m := in.findMethod(err.t, "Is"); m != nil {
			r := in.callSync(g, &Closure{fn: m}, []Value{err.v, target})
			if t, ok := r.(*Term); ok && in.branch(t) {
				return tt.True
			}
		}
		m := in.findMethod(err.t, "Unwrap")
		if m == nil {
			return tt.False
		}
		if m.Signature.Results().Len() != 1 {
			return tt.False
		}
		if _, isSlice := m.Signature.Results().At(0).Type().Underlying().(*types.Slice); isSlice {
			in.unsupported("errors.Is over Unwrap() []error")
		}
		r := in.callSync(g, &Closure{fn: m}, []Value{err.v})
		ni, ok := r.(Iface)
		if !ok {
			return tt.False
		}
		err = ni
	}
	return tt.False
}

func (in *Interp) findMethod(t types.Type, name string) *ssa.Function {
	ms := in.prog.MethodSets.MethodSet(t)
	for i := 0; i < ms.Len(); i++ {
		sel := ms.At(i)
		if sel.Obj().Name() == name {
			return in.prog.MethodValue(sel)
		}
	}
	return nil
}

// ---------------------------------------------------------------- deep equality / copy

func isTimeType(t types.Type) bool {
	n, ok := t.(*types.Named)
	return ok && n.Obj().Pkg() != nil && n.Obj().Pkg().Path() == "time" && n.Obj().Name() == "Time"
}

// deepEq is structural equality: follows pointers, nil and empty slices are equal,
// floats compare by value identity (NaN equals NaN), time.Time compare as instants.
func (in *Interp) deepEq(a, b Value, t types.Type, seen map[[2]*Cell]bool, depth int) *Term {
	tt := in.tt
	if depth > 64 {
		in.unsupported("vSame: structure too deep")
	}
	if t != nil && isTimeType(t) {
		if _, ok := a.(StructV); ok {
			if _, ok := b.(StructV); ok {
				return in.timeEq(a, b)
			}
		}
	}
	var et types.Type // element type for pointers/slices/arrays
	var st *types.Struct
	if t != nil {
		switch u := t.Underlying().(type) {
		case *types.Pointer:
			et = u.Elem()
		case *types.Slice:
			et = u.Elem()
		case *types.Array:
			et = u.Elem()
		case *types.Struct:
			st = u
		}
	}
	switch x := a.(type) {
	case nil:
		return tt.Bool(isNilValue(b))
	case *Term:
		y, ok := b.(*Term)
		if !ok || x.sort != y.sort {
			return tt.False
		}
		if x.sort.K == KFP {
			return in.congEq(x, y)
		}
		return tt.Eq(x, y)
	case Str:
		y, ok := b.(Str)
		if !ok {
			return tt.False
		}
		return in.strEq(x, y)
	case Ptr:
		y, ok := b.(Ptr)
		if !ok {
			return tt.Bool(x.c == nil && isNilValue(b))
		}
		if x.c == nil || y.c == nil {
			return tt.Bool(x.c == nil && y.c == nil)
		}
		if x.c == y.c {
			return tt.True
		}
		k := [2]*Cell{x.c, y.c}
		if seen[k] {
			return tt.True
		}
		seen[k] = true
		if et == nil {
			et = x.c.typ
		}
		return in.deepEq(in.loadQuiet(x.c), in.loadQuiet(y.c), et, seen, depth+1)
	case StructV:
		y, ok := b.(StructV)
		if !ok || len(x.f) != len(y.f) {
			return tt.False
		}
		r := tt.True
		for i := range x.f {
			var ft types.Type
			if st != nil && i < st.NumFields() {
				ft = st.Field(i).Type()
			}
			r = tt.And(r, in.deepEq(x.f[i], y.f[i], ft, seen, depth+1))
			if r == tt.False {
				return r
			}
		}
		return r
	case ArrayV:
		y, ok := b.(ArrayV)
		if !ok || len(x.e) != len(y.e) {
			return tt.False
		}
		r := tt.True
		for i := range x.e {
			r = tt.And(r, in.deepEq(x.e[i], y.e[i], et, seen, depth+1))
		}
		return r
	case SliceV:
		y, ok := b.(SliceV)
		if !ok {
			return tt.Bool(x.len == 0 && isNilValue(b))
		}
		if x.len != y.len {
			return tt.False
		}
		r := tt.True
		for i := 0; i < x.len; i++ {
			if et == nil {
				et = x.arr.typ
			}
			r = tt.And(r, in.deepEq(in.loadQuiet(in.elem(x.arr, x.off+i)), in.loadQuiet(in.elem(y.arr, y.off+i)), et, seen, depth+1))
			if r == tt.False {
				return r
			}
		}
		return r
	case Iface:
		y, ok := b.(Iface)
		if !ok {
			return tt.Bool(x.t == nil && isNilValue(b))
		}
		if x.t == nil || y.t == nil {
			return tt.Bool(x.t == nil && y.t == nil)
		}
		if !types.Identical(x.t, y.t) {
			return tt.False
		}
		return in.deepEq(x.v, y.v, x.t, seen, depth+1)
	case MapV:
		y, ok := b.(MapV)
		if !ok {
			return tt.False
		}
		nx, ny := 0, 0
		if x.m != nil {
			nx = len(x.m.keys)
		}
		if y.m != nil {
			ny = len(y.m.keys)
		}
		if nx != ny {
			return tt.False
		}
		r := tt.True
		for i := 0; i < nx; i++ {
			found := false
			for j := 0; j < ny; j++ {
				c := in.eqVal(x.m.keys[i], y.m.keys[j])
				if !c.IsConst() {
					in.unsupported("vSame on maps with symbolic keys")
				}
				if c.BoolVal() {
					r = tt.And(r, in.deepEq(x.m.vals[i], y.m.vals[j], x.m.vt, seen, depth+1))
					found = true
					break
				}
			}
			if !found {
				return tt.False
			}
		}
		return r
	case *Chan:
		y, _ := b.(*Chan)
		return tt.Bool(x == y)
	case *Closure:
		y, _ := b.(*Closure)
		return tt.Bool((x == nil) == (y == nil))
	case Tuple:
		y, ok := b.(Tuple)
		if !ok || len(x) != len(y) {
			return tt.False
		}
		r := tt.True
		for i := range x {
			r = tt.And(r, in.deepEq(x[i], y[i], nil, seen, depth+1))
		}
		return r
	}
	in.unsupported("vSame on %T", a)
	return nil
}

// timeEq compares two time.Time struct values as instants (same as Time.Equal).
func (in *Interp) timeEq(a, b Value) *Term {
	x, y := a.(StructV), b.(StructV)
	tt := in.tt
	xw, yw := x.f[0].(*Term), y.f[0].(*Term)
	mono := tt.Const(64, 1<<63)
	// times carrying a monotonic clock reading are compared by the real method
	if tt.Bin(OpBAnd, xw, mono) != tt.Const(64, 0) || tt.Bin(OpBAnd, yw, mono) != tt.Const(64, 0) {
		return in.timeEqReal(a, b)
	}
	// without the monotonic bit both are in normal form (wall = nanoseconds, ext = seconds since year 1)
	return tt.And(in.congEqAny(xw, yw), in.congEqAny(x.f[1].(*Term), y.f[1].(*Term)))
}

func (in *Interp) congEqAny(a, b *Term) *Term {
	if in.needsCong(a) || in.needsCong(b) {
		return in.congEq(a, b)
	}
	return in.tt.Eq(a, b)
}

func (in *Interp) timeEqReal(a, b Value) *Term {

	tp := in.prog.ImportedPackage("time")
	if tp == nil {
		in.unsupported("time package not loaded")
	}
	tt := tp.Type("Time").Type()
	ms := in.prog.MethodSets.MethodSet(tt)
	for i := 0; i < ms.Len(); i++ {
		if ms.At(i).Obj().Name() == "Equal" {
			fn := in.prog.MethodValue(ms.At(i))
			return in.callSync(in.cur, &Closure{fn: fn}, []Value{a, b}).(*Term)
		}
	}
	in.unsupported("time.Time.Equal not found")
	return nil
}

func (in *Interp) deepCopy(v Value, cells map[*Cell]*Cell, maps map[*MapObj]*MapObj) Value {
	switch x := v.(type) {
	case Ptr:
		if x.c == nil {
			return x
		}
		return Ptr{in.copyCell(x.c, cells, maps)}
	case StructV:
		f := make([]Value, len(x.f))
		for i := range f {
			f[i] = in.deepCopy(x.f[i], cells, maps)
		}
		return StructV{f}
	case ArrayV:
		e := make([]Value, len(x.e))
		for i := range e {
			e[i] = in.deepCopy(x.e[i], cells, maps)
		}
		return ArrayV{e}
	case SliceV:
		if x.arr == nil {
			return x
		}
		return SliceV{arr: in.copyCell(x.arr, cells, maps), off: x.off, len: x.len, cap: x.cap}
	case Iface:
		if x.t == nil {
			return x
		}
		return Iface{t: x.t, v: in.deepCopy(x.v, cells, maps)}
	case MapV:
		if x.m == nil {
			return x
		}
		if m, ok := maps[x.m]; ok {
			return MapV{m}
		}
		in.allocs++
		nm := &MapObj{id: in.allocs, kt: x.m.kt, vt: x.m.vt, cell: &Cell{id: in.allocs}}
		maps[x.m] = nm
		for i := range x.m.keys {
			nm.keys = append(nm.keys, in.deepCopy(x.m.keys[i], cells, maps))
			nm.vals = append(nm.vals, in.deepCopy(x.m.vals[i], cells, maps))
		}
		return MapV{nm}
	case Tuple:
		t := make(Tuple, len(x))
		for i := range t {
			t[i] = in.deepCopy(x[i], cells, maps)
		}
		return t
	}
	return v
}

func (in *Interp) copyCell(c *Cell, cells map[*Cell]*Cell, maps map[*MapObj]*MapObj) *Cell {
	if n, ok := cells[c]; ok {
		return n
	}
	in.allocs++
	n := &Cell{id: in.allocs, agg: c.agg, typ: c.typ}
	cells[c] = n
	if c.big != nil {
		n.big = map[int]*Cell{}
		n.bigN = c.bigN
		for i, s := range c.big {
			n.big[i] = in.copyCell(s, cells, maps)
		}
		return n
	}
	if c.agg == 0 {
		n.v = in.deepCopy(c.v, cells, maps)
	} else {
		n.sub = make([]*Cell, len(c.sub))
		for i, s := range c.sub {
			if s != nil {
				n.sub[i] = in.copyCell(s, cells, maps)
			}
		}
	}
	return n
}

func (in *Interp) loadPolyDump(target Value) {
	// filled in by C18 support; without a dump the table stays empty
	if in.ex != nil && in.ex.polyDump != nil {
		in.ex.polyDump(in, target)
	}
}

// congEq is equality strengthened by congruence: two applications of the same
// floating-point operation (or of integer add/multiply feeding one) are declared equal
// when their arguments are equal. This is a sufficient condition only; a
// counterexample produced under it is always replayed natively before it is
// reported (the solvers available here do not decide fp.mul/to_fp equalities).
// exact / setExact: a boolean built from vSame with congruence has an exact twin
// (same comparison with plain equality); strong => exact.
func (in *Interp) exact(t *Term) *Term {
	if r, ok := in.exactOf[t.id]; ok {
		return r
	}
	return t
}

func (in *Interp) setExact(strong, exact *Term) {
	if strong == exact || strong.IsConst() && strong.BoolVal() {
		return
	}
	if in.exactOf == nil {
		in.exactOf = map[int]*Term{}
	}
	in.exactOf[strong.id] = exact
}

func (in *Interp) congEq(a, b *Term) *Term {
	tt := in.tt
	if a == b {
		return tt.True
	}
	if in.noCong {
		return tt.Eq(a, b)
	}
	if a.sort != b.sort {
		return tt.False
	}
	if a.IsConst() && b.IsConst() {
		return tt.Bool(a.val == b.val)
	}
	if a.op == b.op && a.val == b.val && len(a.args) == len(b.args) && len(a.args) > 0 && in.needsCong(a) {
		in.stubsHit["congruence-equality (fp / mul / div kernels)"]++
		in.congUsed++
		r := tt.True
		for i := range a.args {
			r = tt.And(r, in.congEq(a.args[i], b.args[i]))
		}
		return r
	}
	return tt.Eq(a, b)
}

// time.Unix with a symbolic nanosecond argument: the real function normalises with
// a division inside data-dependent branches; this computes the same normal form
// (floor division / modulus by 1e9) as branch-free terms. Concrete calls run the real code.
func init() {
	intrinsics["time.Unix"] = func(in *Interp, c *callCtx) Value {
		sec, nsec := c.args[0].(*Term), c.args[1].(*Term)
		tt := in.tt
		tp := in.prog.ImportedPackage("time")
		if nsec.IsConst() || tp == nil {
			// run the real code
			fn := c.fn
			in.pushFrame(c.g, fn, c.args, nil, c.retTo)
			panic(framePushed{})
		}
		in.stubsHit["time.Unix: branch-free normalisation"]++
		e9 := tt.Const(64, 1000000000)
		q := tt.Bin(OpSDiv, nsec, e9)
		r := tt.Bin(OpSRem, nsec, e9)
		neg := tt.Cmp(OpSlt, r, tt.Const(64, 0))
		secOut := tt.Bin(OpSub, tt.Bin(OpAdd, sec, q), tt.Ite(neg, tt.Const(64, 1), tt.Const(64, 0)))
		nsOut := tt.Ite(neg, tt.Bin(OpAdd, r, e9), r)
		wall := tt.Zext(tt.Extract(nsOut, 29, 0), 64)
		const unixToInternal = (1969*365 + 1969/4 - 1969/100 + 1969/400) * 86400
		ext := tt.Bin(OpAdd, secOut, tt.Const(64, uint64(int64(unixToInternal))))
		local := in.load(in.global(tp.Var("Local")))
		return StructV{[]Value{wall, ext, local}}
	}
}

type framePushed struct{}

// needsCong: the term contains floating point or multiply/divide kernels that the
// installed solvers do not decide when mixed with bit-level decoding.
func (in *Interp) needsCong(t *Term) bool {
	if t.sort.K == KFP {
		return true
	}
	if in.hardMemo == nil {
		in.hardMemo = map[int]bool{}
	}
	return in.tt.usesHardArith(t, in.hardMemo)
}

// sort.Sort under its documented contract ("not guaranteed to be stable"): the
// result is any permutation of the input that is ordered with respect to Less.
func init() {
	intrinsics["sort.Sort"] = func(in *Interp, c *callCtx) Value {
		if !in.cfg.SortContract {
			in.pushFrame(c.g, c.fn, c.args, nil, c.retTo)
			panic(framePushed{})
		}
		data := c.args[0].(Iface)
		if data.t == nil {
			in.goPanic(c.g, "nil", "sort.Sort(nil)", nil)
			return nil
		}
		if nt, ok := data.t.(*types.Named); ok && nt.Obj().Pkg() != nil && nt.Obj().Pkg().Path() == "sort" {
			// sort.StringSlice & co. are total orders on values: every ordered permutation is
			// the same slice, so the real implementation is run (osm's package init sorts tables)
			in.pushFrame(c.g, c.fn, c.args, nil, c.retTo)
			panic(framePushed{})
		}
		mLen, mLess, mSwap := in.findMethod(data.t, "Len"), in.findMethod(data.t, "Less"), in.findMethod(data.t, "Swap")
		nT := in.callSync(c.g, &Closure{fn: mLen}, []Value{data.v}).(*Term)
		if !nT.IsConst() {
			in.unsupported("sort.Sort of symbolic length")
		}
		n := int(nT.I64())
		if n > 5 {
			panic(pathEnd{kind: "unwind", msg: "sort contract stub limited to 5 elements"})
		}
		k := func(i int) Value { return in.tt.Const(64, uint64(i)) }
		for i := 0; i < n-1; i++ {
			in.freeChoices++
			j := i + in.decideFree(n-i)
			if j != i {
				in.callSync(c.g, &Closure{fn: mSwap}, []Value{data.v, k(i), k(j)})
			}
		}
		for i := 0; i+1 < n; i++ {
			lt := in.callSync(c.g, &Closure{fn: mLess}, []Value{data.v, k(i + 1), k(i)}).(*Term)
			in.assume(in.tt.Not(lt))
		}
		in.stubsHit["sort.Sort contract: any permutation ordered w.r.t. Less"]++
		return nil
	}
}

// jsonToValue converts a decoded JSON document into a value of Go type t (structs by json tag).
func (in *Interp) jsonToValue(doc interface{}, t types.Type) Value {
	switch u := t.Underlying().(type) {
	case *types.Basic:
		if isString(u) {
			s, _ := doc.(string)
			return Str{s: s}
		}
		if w, _, ok := isInt(u); ok {
			f, _ := doc.(float64)
			return in.tt.Const(w, uint64(int64(f)))
		}
		if isBool(u) {
			b, _ := doc.(bool)
			return in.tt.Bool(b)
		}
	case *types.Slice:
		arr, ok := doc.([]interface{})
		if !ok {
			return SliceV{}
		}
		cell := in.newArray(u.Elem(), len(arr))
		for i, e := range arr {
			in.store(in.elem(cell, i), in.jsonToValue(e, u.Elem()))
		}
		return SliceV{arr: cell, len: len(arr), cap: len(arr)}
	case *types.Struct:
		obj, _ := doc.(map[string]interface{})
		f := make([]Value, u.NumFields())
		for i := range f {
			name := u.Field(i).Name()
			if tag := reflect.StructTag(u.Tag(i)).Get("json"); tag != "" {
				name = strings.Split(tag, ",")[0]
			}
			if v, ok := obj[name]; ok {
				f[i] = in.jsonToValue(v, u.Field(i).Type())
			} else {
				f[i] = in.zero(u.Field(i).Type())
			}
		}
		return StructV{f}
	}
	in.unsupported("json decoding into %s", t)
	return nil
}

// (time.Time).Sub for whole-second times without a monotonic reading: the real method
// multiplies by 10^9 and then verifies the result with a division; the difference in
// seconds times 10^9 is the same value as long as it does not saturate (assumed:
// |t-u| < 2^33 s, recorded as a stub assumption).
func init() {
	intrinsics["(time.Time).Sub"] = func(in *Interp, c *callCtx) Value {
		t, u := c.args[0].(StructV), c.args[1].(StructV)
		tw, uw := t.f[0].(*Term), u.f[0].(*Term)
		zero := in.tt.Const(64, 0)
		if tw != zero || uw != zero {
			in.pushFrame(c.g, c.fn, c.args, nil, c.retTo)
			panic(framePushed{})
		}
		te, ue := t.f[1].(*Term), u.f[1].(*Term)
		if te.IsConst() && ue.IsConst() {
			in.pushFrame(c.g, c.fn, c.args, nil, c.retTo)
			panic(framePushed{})
		}
		tt := in.tt
		diff := tt.Bin(OpSub, te, ue)
		lim := tt.Const(64, 1<<33)
		in.assumeStub(tt.And(tt.Cmp(OpSlt, diff, lim), tt.Cmp(OpSlt, tt.Neg(lim), diff)), "time.Sub: |t-u| < 2^33 s (no saturation; durations derived from it by +/- constants do not overflow)")
		return tt.MulScaled(diff, 1000000000)
	}
}

// sort.Slice / sort.SliceStable use reflectlite.Swapper (unsafe). For slices of at most
// 12 elements the real implementations are exactly the insertion sort below
// (pdqsort_func and stable_func both start with insertionSort for short ranges), with
// `less` the caller's closure executed from source; longer slices are not decided.
func init() {
	small := func(name string, limit int) intrinsic {
		return func(in *Interp, c *callCtx) Value {
			x, ok := c.args[0].(Iface)
			if !ok || x.t == nil {
				in.goPanic(c.g, "other", name+" of nil", nil)
				return nil
			}
			sv, ok := x.v.(SliceV)
			if !ok {
				in.unsupported("%s of a non-slice", name)
			}
			less, ok := c.args[1].(*Closure)
			if !ok || less == nil {
				in.unsupported("%s with a nil less function", name)
			}
			n := sv.len
			if n > limit {
				panic(pathEnd{kind: "unwind", msg: name + " of more than " + fmt.Sprint(limit) + " elements (reflection-based swapper not modelled)"})
			}
			in.stubsHit[name+": insertion sort as in the real implementation for short slices"]++
			k := func(i int) Value { return in.tt.Const(64, uint64(i)) }
			for i := 1; i < n; i++ {
				for j := i; j > 0; j-- {
					lt := in.callSync(c.g, less, []Value{k(j), k(j - 1)}).(*Term)
					if !in.branch(lt) {
						break
					}
					a, b := in.elem(sv.arr, sv.off+j), in.elem(sv.arr, sv.off+j-1)
					va, vb := in.load(a), in.load(b)
					in.store(a, vb)
					in.store(b, va)
				}
			}
			return nil
		}
	}
	// sort.SliceIsSorted: for i := n-1; i > 0; i-- { if less(i, i-1) { return false } }
	intrinsics["sort.SliceIsSorted"] = func(in *Interp, c *callCtx) Value {
		x, ok := c.args[0].(Iface)
		if !ok || x.t == nil {
			in.goPanic(c.g, "other", "sort.SliceIsSorted of nil", nil)
			return nil
		}
		sv, ok := x.v.(SliceV)
		if !ok {
			in.unsupported("sort.SliceIsSorted of a non-slice")
		}
		less, ok := c.args[1].(*Closure)
		if !ok || less == nil {
			in.unsupported("sort.SliceIsSorted with a nil less function")
		}
		for i := sv.len - 1; i > 0; i-- {
			lt := in.callSync(c.g, less, []Value{in.tt.Const(64, uint64(i)), in.tt.Const(64, uint64(i-1))}).(*Term)
			if in.branch(lt) {
				return in.tt.False
			}
		}
		return in.tt.True
	}
	intrinsics["sort.Slice"] = small("sort.Slice", 12)
	intrinsics["sort.SliceStable"] = small("sort.SliceStable", 12)
}

func (in *Interp) jsonIntoStringMap(txt string, cell *Cell, mt *types.Map) Value {
	in.stubsHit["encoding/json.Unmarshal of concrete text into map[string]string (documented merge / type-error behaviour)"]++
	if !json.Valid([]byte(txt)) {
		return in.mkError("invalid character in JSON text") // syntax errors are detected before anything is stored
	}
	dec := json.NewDecoder(strings.NewReader(txt))
	tok, err := dec.Token()
	if err != nil {
		return in.mkError("json: " + err.Error())
	}
	if tok == nil { // null: the map is left alone
		return Iface{}
	}
	if d, ok := tok.(json.Delim); !ok || d != '{' {
		return in.mkError("json: cannot unmarshal non-object into Go value of type map[string]string")
	}
	mv, _ := in.load(cell).(MapV)
	if mv.m == nil {
		in.allocs++
		mv = MapV{&MapObj{id: in.allocs, kt: mt.Key(), vt: mt.Elem(), cell: &Cell{id: in.allocs, typ: mt}}}
		in.store(cell, mv)
	}
	var firstErr Value = Iface{}
	for dec.More() {
		kt, err := dec.Token()
		if err != nil {
			return in.mkError("json: " + err.Error())
		}
		key, _ := kt.(string)
		var raw json.RawMessage
		if err := dec.Decode(&raw); err != nil {
			return in.mkError("json: " + err.Error())
		}
		var sv string
		if len(raw) > 0 && raw[0] == '"' && json.Unmarshal(raw, &sv) == nil {
			in.mapSet(mv.m, Str{s: key}, Str{s: sv})
		} else if string(raw) == "null" {
			in.mapSet(mv.m, Str{s: key}, Str{})
		} else if isNilValue(firstErr) {
			firstErr = in.mkError("json: cannot unmarshal value of member " + key + " into Go value of type string")
		}
	}
	return firstErr
}

// sync.Pool: Get returns the most recently Put value (the behaviour under which state
// left in a pooled object is visible to the next user), otherwise New().
func init() {
	key := func(in *Interp, c *Cell) string { return in.sideKey("syncpool", c) }
	intrinsics["(*sync.Pool).Put"] = func(in *Interp, c *callCtx) Value {
		p := c.args[0].(Ptr)
		k := key(in, p.c)
		st, _ := in.objs[k].(Tuple)
		in.objs[k] = append(append(Tuple{}, st...), c.args[1])
		in.stubsHit["sync.Pool (LIFO model)"]++
		return nil
	}
	intrinsics["(*sync.Pool).Get"] = func(in *Interp, c *callCtx) Value {
		p := c.args[0].(Ptr)
		k := key(in, p.c)
		in.stubsHit["sync.Pool (LIFO model)"]++
		if st, _ := in.objs[k].(Tuple); len(st) > 0 {
			v := st[len(st)-1]
			in.objs[k] = append(Tuple{}, st[:len(st)-1]...)
			return v
		}
		// New func() any
		pt := p.c.typ
		if st, ok := pt.Underlying().(*types.Struct); ok {
			for i := 0; i < st.NumFields(); i++ {
				if st.Field(i).Name() == "New" {
					if cl, ok := in.load(p.c.sub[i]).(*Closure); ok && cl != nil {
						return in.callSync(c.g, cl, nil)
					}
				}
			}
		}
		return Iface{}
	}
}
