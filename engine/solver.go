package main

// Persistent SMT solver process (z3 -in by default). Terms are sent once as global
// zero-arity define-funs; the assertion stack mirrors the executor's path condition.

import (
	"bufio"
	"fmt"
	"io"
	"os"
	"os/exec"
	"strconv"
	"strings"
	"time"
)

type Verdict int

const (
	Sat Verdict = iota
	Unsat
	Unknown
)

func (v Verdict) String() string { return [...]string{"sat", "unsat", "unknown"}[v] }

type SolverStats struct {
	Sat, Unsat, Unknown, Errors int
	Time                        time.Duration
	Queries                     int
}

type Solver struct {
	name    string
	cmd     *exec.Cmd
	in      io.WriteCloser
	out     *bufio.Reader
	sent    map[int]bool // term ids defined/declared
	stack   []*Term      // asserted path condition, one push level each
	seq     int
	stats   SolverStats
	timeout int // ms per query
	log     io.Writer
	dead    bool
	closed  bool
}

func solverArgs(name string, timeoutMs int) (string, []string) {
	switch name {
	case "z3":
		return "z3", []string{"-in"}
	case "z3-new":
		return "z3-new", []string{"-in"}
	case "cvc5":
		return "cvc5", []string{"--incremental", "--produce-models", "--global-declarations", fmt.Sprintf("--tlimit-per=%d", timeoutMs)}
	case "cvc5-int":
		return "cvc5", []string{"--incremental", "--produce-models", "--global-declarations", "--solve-bv-as-int=sum", fmt.Sprintf("--tlimit-per=%d", timeoutMs)}
	}
	return name, nil
}

func NewSolver(name string, timeoutMs int) (*Solver, error) {
	bin, args := solverArgs(name, timeoutMs)
	cmd := exec.Command(bin, args...)
	in, err := cmd.StdinPipe()
	if err != nil {
		return nil, err
	}
	out, err := cmd.StdoutPipe()
	if err != nil {
		return nil, err
	}
	cmd.Stderr = cmd.Stdout
	if err := cmd.Start(); err != nil {
		return nil, err
	}
	s := &Solver{name: name, cmd: cmd, in: in, out: bufio.NewReaderSize(out, 1<<20), sent: map[int]bool{}, timeout: timeoutMs}
	if lf := os.Getenv("SYMGO_SMTLOG"); lf != "" {
		f, _ := os.OpenFile(fmt.Sprintf("%s.%d", lf, cmd.Process.Pid), os.O_CREATE|os.O_WRONLY|os.O_TRUNC, 0644)
		s.log = f
	}
	if strings.HasPrefix(name, "z3") {
		s.send("(set-option :global-declarations true)\n(set-option :produce-models true)\n")
		s.send(fmt.Sprintf("(set-option :timeout %d)\n", timeoutMs))
	} else {
		s.send("(set-logic ALL)\n")
	}
	return s, nil
}

func (s *Solver) Close() {
	if s.closed {
		return
	}
	s.closed = true
	s.dead = true
	s.in.Close()
	s.cmd.Process.Kill()
	s.cmd.Wait()
}

func (s *Solver) send(txt string) {
	if s.log != nil {
		io.WriteString(s.log, txt)
	}
	io.WriteString(s.in, txt)
}

// roundTrip sends txt followed by an echo marker and returns all lines before it.
func (s *Solver) roundTrip(txt string) ([]string, error) {
	s.seq++
	mark := fmt.Sprintf("symgo-mark-%d", s.seq)
	s.send(txt)
	s.send(fmt.Sprintf("(echo \"%s\")\n", mark))
	var lines []string
	for {
		line, err := s.out.ReadString('\n')
		if err != nil {
			s.dead = true
			return lines, fmt.Errorf("solver %s died: %v (%v)", s.name, err, lines)
		}
		line = strings.TrimSpace(line)
		if line == mark || line == "\""+mark+"\"" {
			return lines, nil
		}
		if line != "" {
			lines = append(lines, line)
		}
	}
}

// define emits declarations/definitions for t and everything below it.
func (s *Solver) define(t *Term, sb *strings.Builder) {
	if t.op == OpConst || s.sent[t.id] {
		return
	}
	// iterative post-order to avoid deep recursion
	type fr struct {
		t *Term
		i int
	}
	st := []fr{{t, 0}}
	for len(st) > 0 {
		top := &st[len(st)-1]
		if top.t.op == OpConst || s.sent[top.t.id] {
			st = st[:len(st)-1]
			continue
		}
		if top.i < len(top.t.args) {
			a := top.t.args[top.i]
			top.i++
			if a.op != OpConst && !s.sent[a.id] {
				st = append(st, fr{a, 0})
			}
			continue
		}
		x := top.t
		if x.op == OpVar {
			fmt.Fprintf(sb, "(declare-const %s %s)\n", symName(x.name), x.sort)
		} else {
			fmt.Fprintf(sb, "(define-fun t%d () %s %s)\n", x.id, x.sort, x.body())
		}
		s.sent[x.id] = true
		st = st[:len(st)-1]
	}
}

// sync makes the solver's assertion stack equal to pc.
func (s *Solver) sync(pc []*Term, sb *strings.Builder) {
	k := 0
	for k < len(pc) && k < len(s.stack) && pc[k] == s.stack[k] {
		k++
	}
	if n := len(s.stack) - k; n > 0 {
		fmt.Fprintf(sb, "(pop %d)\n", n)
		s.stack = s.stack[:k]
	}
	for ; k < len(pc); k++ {
		s.define(pc[k], sb)
		fmt.Fprintf(sb, "(push 1)\n(assert %s)\n", pc[k].ref())
		s.stack = append(s.stack, pc[k])
	}
}

// Check decides pc ∧ extra. If wantModel is non-nil and the answer is sat, the
// values of those variables are returned.
func (s *Solver) Check(pc []*Term, extra *Term, wantModel []*Term) (Verdict, map[string]uint64, error) {
	if s.dead {
		return Unknown, nil, fmt.Errorf("solver dead")
	}
	start := time.Now()
	var sb strings.Builder
	s.sync(pc, &sb)
	if extra != nil {
		s.define(extra, &sb)
		fmt.Fprintf(&sb, "(push 1)\n(assert %s)\n", extra.ref())
	}
	sb.WriteString("(check-sat)\n")
	lines, err := s.roundTrip(sb.String())
	verdict := Unknown
	hadErr := false
	if err == nil {
		for _, l := range lines {
			switch {
			case l == "sat":
				verdict = Sat
			case l == "unsat":
				verdict = Unsat
			case l == "unknown" || l == "timeout":
				verdict = Unknown
			case strings.HasPrefix(l, "(error"):
				hadErr = true
				fmt.Fprintf(os.Stderr, "solver %s: %s\n", s.name, l)
			}
		}
	}
	if hadErr {
		verdict = Unknown
		s.stats.Errors++
	}
	var model map[string]uint64
	if err == nil && verdict == Sat && len(wantModel) > 0 {
		var q strings.Builder
		// declare unseen vars so get-value does not error
		for _, v := range wantModel {
			s.define(v, &q)
		}
		q.WriteString("(get-value (")
		for _, v := range wantModel {
			q.WriteString(v.ref())
			q.WriteString(" ")
		}
		q.WriteString("))\n")
		ml, merr := s.roundTrip(q.String())
		if merr != nil {
			err = merr
		} else {
			model = parseModel(strings.Join(ml, " "))
		}
	}
	if err == nil && extra != nil {
		_, err = s.roundTrip("(pop 1)\n")
	}
	s.stats.Queries++
	s.stats.Time += time.Since(start)
	if d := time.Since(start); d > 2*time.Second && os.Getenv("SYMGO_SLOW") != "" {
		fmt.Fprintf(os.Stderr, "slow query %s: %v verdict=%v pc=%d\n", s.name, d, verdict, len(pc))
	}
	switch verdict {
	case Sat:
		s.stats.Sat++
	case Unsat:
		s.stats.Unsat++
	default:
		s.stats.Unknown++
	}
	return verdict, model, err
}

// parseModel parses ((|x| #x00ff) (|b| true) ...)
func parseModel(txt string) map[string]uint64 {
	m := map[string]uint64{}
	i := 0
	n := len(txt)
	for i < n {
		// find "(|" or "(name"
		if txt[i] != '(' {
			i++
			continue
		}
		j := i + 1
		if j < n && txt[j] == '(' {
			i++
			continue
		}
		// read symbol
		var name string
		if j < n && txt[j] == '|' {
			k := strings.IndexByte(txt[j+1:], '|')
			if k < 0 {
				break
			}
			name = txt[j+1 : j+1+k]
			j = j + 1 + k + 1
		} else {
			k := j
			for k < n && txt[k] != ' ' && txt[k] != ')' {
				k++
			}
			name = txt[j:k]
			j = k
		}
		for j < n && txt[j] == ' ' {
			j++
		}
		// read value token (until matching paren close at depth 0)
		depth := 0
		k := j
		for k < n {
			if txt[k] == '(' {
				depth++
			} else if txt[k] == ')' {
				if depth == 0 {
					break
				}
				depth--
			}
			k++
		}
		val := strings.TrimSpace(txt[j:k])
		if v, ok := parseValue(val); ok && name != "" {
			m[name] = v
		}
		i = k + 1
	}
	return m
}

func parseValue(v string) (uint64, bool) {
	switch {
	case v == "true":
		return 1, true
	case v == "false":
		return 0, true
	case strings.HasPrefix(v, "#x"):
		u, err := strconv.ParseUint(v[2:], 16, 64)
		return u, err == nil
	case strings.HasPrefix(v, "#b"):
		u, err := strconv.ParseUint(v[2:], 2, 64)
		return u, err == nil
	case strings.HasPrefix(v, "(_ bv"):
		f := strings.Fields(v[5:])
		u, err := strconv.ParseUint(f[0], 10, 64)
		return u, err == nil
	}
	return 0, false
}
