package main

// fmt / strconv formatting as ropes: a rope is a string whose pieces are literal
// bytes, symbolic bytes, or the canonical decimal of an integer term. Ropes are only
// ever concatenated, copied and compared; code that indexes into one ends the path
// as "not decided". Stub contracts: %d / %v of an integer is its canonical decimal
// (optionally zero padded), %s/%v of a string is the string, %v of a nil interface is
// "<nil>", %v/%s of a value with Error()/String() is that method's result.

import (
	"fmt"
	"go/types"
	"strconv"
	"strings"
)

type piece struct {
	lit   string
	bytes []*Term // symbolic bytes
	dec   *Term   // integer printed in decimal
	sign  bool    // dec is signed
	pad   int     // zero-pad width (0 = none)
	flt   *Term   // float printed with %f (symbolic)
	kind  int     // 0 lit, 1 bytes, 2 dec, 3 flt
}

func (in *Interp) strToPieces(s Str) []piece {
	if s.rope != nil {
		return s.rope
	}
	if s.sym != nil {
		return []piece{{kind: 1, bytes: s.sym}}
	}
	if s.s == "" {
		return nil
	}
	return []piece{{kind: 0, lit: s.s}}
}

func (in *Interp) mkRope(ps []piece) Str {
	var out []piece
	for _, p := range ps {
		switch p.kind {
		case 2:
			if p.dec.IsConst() {
				var txt string
				if p.sign {
					txt = strconv.FormatInt(p.dec.I64(), 10)
				} else {
					txt = strconv.FormatUint(p.dec.val, 10)
				}
				if p.pad > 0 {
					neg := strings.HasPrefix(txt, "-")
					if neg {
						txt = txt[1:]
					}
					w := p.pad
					if neg {
						w--
					}
					for len(txt) < w {
						txt = "0" + txt
					}
					if neg {
						txt = "-" + txt
					}
				}
				p = piece{kind: 0, lit: txt}
			}
		case 1:
			if c, ok := (Str{sym: p.bytes}).Concrete(); ok {
				p = piece{kind: 0, lit: c}
			}
		case 3:
			if p.flt.IsConst() {
				p = piece{kind: 0, lit: strconv.FormatFloat(p.flt.F64(), 'f', 6, 64)}
			}
		}
		if p.kind == 0 {
			if p.lit == "" {
				continue
			}
			if n := len(out); n > 0 && out[n-1].kind == 0 {
				out[n-1].lit += p.lit
				continue
			}
		}
		if p.kind == 1 && len(p.bytes) == 0 {
			continue
		}
		out = append(out, p)
	}
	if len(out) == 0 {
		return Str{}
	}
	if len(out) == 1 && out[0].kind == 0 {
		return Str{s: out[0].lit}
	}
	if len(out) == 1 && out[0].kind == 1 {
		return Str{sym: out[0].bytes}
	}
	// lit and bytes only => plain symbolic string
	plain := true
	for _, p := range out {
		if p.kind >= 2 {
			plain = false
		}
	}
	if plain {
		var b []*Term
		for _, p := range out {
			if p.kind == 0 {
				b = append(b, in.strBytes(Str{s: p.lit})...)
			} else {
				b = append(b, p.bytes...)
			}
		}
		return in.mkStr(b)
	}
	return Str{rope: out}
}

// ropeEq compares two strings at least one of which is a rope.
func (in *Interp) ropeEq(a, b Str) *Term {
	tt := in.tt
	pa, pb := in.strToPieces(a), in.strToPieces(b)
	// same piece structure: piece-wise
	if len(pa) == len(pb) {
		same := true
		for i := range pa {
			if pa[i].kind != pb[i].kind || (pa[i].kind == 2 && (pa[i].pad != pb[i].pad || pa[i].sign != pb[i].sign)) ||
				(pa[i].kind == 1 && len(pa[i].bytes) != len(pb[i].bytes)) {
				same = false
				break
			}
		}
		if same {
			r := tt.True
			for i := range pa {
				switch pa[i].kind {
				case 0:
					r = tt.And(r, tt.Bool(pa[i].lit == pb[i].lit))
				case 1:
					r = tt.And(r, in.strEq(Str{sym: pa[i].bytes}, Str{sym: pb[i].bytes}))
				case 2:
					x, y := pa[i].dec, pb[i].dec
					if x.sort != y.sort {
						w := x.sort.W
						if y.sort.W > w {
							w = y.sort.W
						}
						if pa[i].sign {
							x, y = tt.Sext(x, w), tt.Sext(y, w)
						} else {
							x, y = tt.Zext(x, w), tt.Zext(y, w)
						}
					}
					r = tt.And(r, tt.Eq(x, y))
				case 3:
					r = tt.And(r, in.congEq(pa[i].flt, pb[i].flt))
				}
			}
			return r
		}
	}
	// rope against a concrete string: match literals, read decimals
	if cb, ok := b.Concrete(); ok && b.rope == nil {
		return in.ropeMatch(pa, cb)
	}
	if ca, ok := a.Concrete(); ok && a.rope == nil {
		return in.ropeMatch(pb, ca)
	}
	return in.ropeAlign(pa, pb)
}

// ropeAlign compares two piece lists by walking them in step: literals and symbolic
// bytes are consumed byte by byte, a decimal must face the SAME decimal term (then
// both have the same text). Anything else cannot be aligned and is not decided.
func (in *Interp) ropeAlign(pa, pb []piece) *Term {
	tt := in.tt
	type cur struct {
		ps  []piece
		i   int
		off int
	}
	x, y := &cur{ps: pa}, &cur{ps: pb}
	norm := func(c *cur) {
		for c.i < len(c.ps) {
			p := c.ps[c.i]
			if (p.kind == 0 && c.off >= len(p.lit)) || (p.kind == 1 && c.off >= len(p.bytes)) {
				c.i++
				c.off = 0
				continue
			}
			break
		}
	}
	byteAt := func(c *cur) *Term {
		p := c.ps[c.i]
		if p.kind == 0 {
			return tt.Const(8, uint64(p.lit[c.off]))
		}
		return p.bytes[c.off]
	}
	r := tt.True
	for {
		norm(x)
		norm(y)
		if x.i >= len(x.ps) || y.i >= len(y.ps) {
			if x.i >= len(x.ps) && y.i >= len(y.ps) {
				return r
			}
			// leftover: unequal unless the rest can be empty (it cannot: pieces are non-empty)
			rest := x
			if x.i >= len(x.ps) {
				rest = y
			}
			for k := rest.i; k < len(rest.ps); k++ {
				if rest.ps[k].kind >= 2 || len(rest.ps[k].lit)+len(rest.ps[k].bytes) > 0 {
					return tt.False
				}
			}
			return r
		}
		px, py := x.ps[x.i], y.ps[y.i]
		if px.kind <= 1 && py.kind <= 1 {
			r = tt.And(r, tt.Eq(byteAt(x), byteAt(y)))
			if r == tt.False {
				return r
			}
			x.off++
			y.off++
			continue
		}
		if px.kind == 2 && py.kind == 2 && px.dec == py.dec && px.pad == py.pad && px.sign == py.sign && x.off == 0 && y.off == 0 {
			x.i++
			y.i++
			continue
		}
		if px.kind == 3 && py.kind == 3 && px.flt == py.flt {
			x.i++
			y.i++
			continue
		}
		in.unsupported("comparison of differently structured symbolic formatted strings")
	}
}

func (in *Interp) ropeMatch(ps []piece, s string) *Term {
	tt := in.tt
	r := tt.True
	for i, p := range ps {
		switch p.kind {
		case 0:
			if !strings.HasPrefix(s, p.lit) {
				return tt.False
			}
			s = s[len(p.lit):]
		case 1:
			if len(s) < len(p.bytes) {
				return tt.False
			}
			r = tt.And(r, in.strEq(Str{sym: p.bytes}, Str{s: s[:len(p.bytes)]}))
			s = s[len(p.bytes):]
		case 2:
			j := 0
			if j < len(s) && s[j] == '-' && p.sign {
				j++
			}
			for j < len(s) && s[j] >= '0' && s[j] <= '9' {
				j++
			}
			if i+1 < len(ps) && ps[i+1].kind == 0 && ps[i+1].lit != "" && ps[i+1].lit[0] >= '0' && ps[i+1].lit[0] <= '9' {
				in.unsupported("ambiguous decimal followed by digit literal")
			}
			txt := s[:j]
			s = s[j:]
			if txt == "" || txt == "-" {
				return tt.False
			}
			digits := strings.TrimPrefix(txt, "-")
			if p.pad == 0 && len(digits) > 1 && digits[0] == '0' {
				return tt.False // not canonical
			}
			if p.pad > 0 && len(txt) != p.pad && (len(txt) < p.pad || digits[0] == '0') {
				return tt.False
			}
			if p.sign {
				v, err := strconv.ParseInt(txt, 10, 64)
				if err != nil {
					return tt.False
				}
				r = tt.And(r, tt.Eq(p.dec, tt.Const(p.dec.sort.W, uint64(v))))
				if p.dec.sort.W < 64 && sext(uint64(v)&mask(p.dec.sort.W), p.dec.sort.W) != v {
					return tt.False
				}
			} else {
				v, err := strconv.ParseUint(txt, 10, 64)
				if err != nil {
					return tt.False
				}
				if p.dec.sort.W < 64 && v > mask(p.dec.sort.W) {
					return tt.False
				}
				r = tt.And(r, tt.Eq(p.dec, tt.Const(p.dec.sort.W, v)))
			}
		default:
			in.unsupported("comparison of a symbolic %%f rope with a concrete string")
		}
	}
	if s != "" {
		return tt.False
	}
	return r
}

// fmtArg renders one operand for a verb.
func (in *Interp) fmtArg(g *Goroutine, verb byte, pad int, arg Value) []piece {
	iv, ok := arg.(Iface)
	if !ok {
		return []piece{{kind: 0, lit: "%!" + string(verb) + "(?)"}}
	}
	if iv.t == nil {
		if verb == 'T' {
			return []piece{{kind: 0, lit: "<nil>"}}
		}
		return []piece{{kind: 0, lit: "<nil>"}} // contract: %v / %s of a nil interface
	}
	if verb == 'T' {
		return []piece{{kind: 0, lit: types.TypeString(iv.t, nil)}}
	}
	// Error() / String() methods take precedence for %v %s %q
	if verb == 'v' || verb == 's' || verb == 'q' {
		for _, mname := range []string{"Error", "String"} {
			if m := in.findMethod(iv.t, mname); m != nil && m.Signature.Params().Len() == 0 && m.Signature.Results().Len() == 1 && isString(m.Signature.Results().At(0).Type()) {
				if p, isPtr := iv.v.(Ptr); isPtr && p.c == nil {
					return []piece{{kind: 0, lit: "<nil>"}}
				}
				r := in.callSync(g, &Closure{fn: m}, []Value{iv.v})
				if s, ok := r.(Str); ok {
					ps := in.strToPieces(s)
					if verb == 'q' {
						if c, ok := s.Concrete(); ok && s.rope == nil {
							return []piece{{kind: 0, lit: strconv.Quote(c)}}
						}
						return append(append([]piece{{kind: 0, lit: "\""}}, ps...), piece{kind: 0, lit: "\""})
					}
					return ps
				}
			}
		}
	}
	switch v := iv.v.(type) {
	case Str:
		if verb == 'q' {
			if c, ok := v.Concrete(); ok && v.rope == nil {
				return []piece{{kind: 0, lit: strconv.Quote(c)}}
			}
			return append(append([]piece{{kind: 0, lit: "\""}}, in.strToPieces(v)...), piece{kind: 0, lit: "\""})
		}
		return in.strToPieces(v)
	case *Term:
		if isBool(iv.t) {
			if v.IsConst() {
				return []piece{{kind: 0, lit: strconv.FormatBool(v.BoolVal())}}
			}
			in.unsupported("formatting a symbolic bool")
		}
		if _, ok := isFloat(iv.t); ok {
			if v.IsConst() {
				switch verb {
				case 'f':
					return []piece{{kind: 0, lit: strconv.FormatFloat(v.F64(), 'f', 6, 64)}}
				default:
					return []piece{{kind: 0, lit: strconv.FormatFloat(v.F64(), 'g', -1, 64)}}
				}
			}
			return []piece{{kind: 3, flt: v}}
		}
		if _, signed, ok := isInt(iv.t); ok {
			if verb == 'x' {
				if v.IsConst() {
					return []piece{{kind: 0, lit: strconv.FormatUint(v.val, 16)}}
				}
				in.unsupported("%%x of a symbolic integer")
			}
			if verb == 'c' {
				if v.IsConst() {
					return []piece{{kind: 0, lit: string(rune(v.I64()))}}
				}
				in.unsupported("%%c of a symbolic integer")
			}
			return []piece{{kind: 2, dec: v, sign: signed, pad: pad}}
		}
	case Ptr:
		if v.c == nil {
			return []piece{{kind: 0, lit: "<nil>"}}
		}
		return []piece{{kind: 0, lit: "0xc000000000"}}
	case SliceV:
		// []byte with %s
		if sl, ok := iv.t.Underlying().(*types.Slice); ok {
			if eb, ok := sl.Elem().Underlying().(*types.Basic); ok && eb.Kind() == types.Uint8 && verb == 's' {
				return in.strToPieces(in.mkStr(in.sliceBytes(v)))
			}
		}
		return []piece{{kind: 0, lit: "[...]"}}
	case StructV:
		return []piece{{kind: 0, lit: "{...}"}}
	}
	return []piece{{kind: 0, lit: fmt.Sprintf("%%!%c(%s)", verb, types.TypeString(iv.t, nil))}}
}

// sprintf formats with a constant format string; returns the rope and the operand of %w (if any).
func (in *Interp) sprintf(g *Goroutine, format Str, args []Value) (Str, Value) {
	f, ok := format.Concrete()
	if !ok || format.rope != nil {
		in.unsupported("fmt with a symbolic format string")
	}
	var ps []piece
	var wrapped Value
	argi := 0
	for i := 0; i < len(f); i++ {
		c := f[i]
		if c != '%' {
			j := i
			for j < len(f) && f[j] != '%' {
				j++
			}
			ps = append(ps, piece{kind: 0, lit: f[i:j]})
			i = j - 1
			continue
		}
		i++
		if i >= len(f) {
			ps = append(ps, piece{kind: 0, lit: "%!(NOVERB)"})
			break
		}
		if f[i] == '%' {
			ps = append(ps, piece{kind: 0, lit: "%"})
			continue
		}
		// flags / width / [n] index
		zero := false
		width := 0
		for i < len(f) {
			switch {
			case f[i] == '0' && width == 0:
				zero = true
				i++
				continue
			case f[i] >= '0' && f[i] <= '9':
				width = width*10 + int(f[i]-'0')
				i++
				continue
			case f[i] == '[':
				j := strings.IndexByte(f[i:], ']')
				n, _ := strconv.Atoi(f[i+1 : i+j])
				argi = n - 1
				i += j + 1
				continue
			case f[i] == '+' || f[i] == '-' || f[i] == '#' || f[i] == ' ' || f[i] == '.':
				in.unsupported("fmt flag %q", string(f[i]))
			}
			break
		}
		verb := f[i]
		if argi >= len(args) {
			ps = append(ps, piece{kind: 0, lit: "%!" + string(verb) + "(MISSING)"})
			continue
		}
		pad := 0
		if zero {
			pad = width
		} else if width > 0 {
			in.unsupported("fmt width without zero flag")
		}
		arg := args[argi]
		argi++
		if verb == 'w' {
			wrapped = arg
			verb = 'v'
		}
		ps = append(ps, in.fmtArg(g, verb, pad, arg)...)
	}
	return in.mkRope(ps), wrapped
}

func variadicArgs(v Value, in *Interp) []Value {
	s, ok := v.(SliceV)
	if !ok || s.arr == nil {
		return nil
	}
	out := make([]Value, s.len)
	for i := 0; i < s.len; i++ {
		out[i] = in.load(in.elem(s.arr, s.off+i))
	}
	return out
}

func init() {
	intrinsics["fmt.Sprintf"] = func(in *Interp, c *callCtx) Value {
		s, _ := in.sprintf(c.g, c.args[0].(Str), variadicArgs(c.args[1], in))
		return s
	}
	intrinsics["fmt.Errorf"] = func(in *Interp, c *callCtx) Value {
		s, wrapped := in.sprintf(c.g, c.args[0].(Str), variadicArgs(c.args[1], in))
		if wrapped != nil {
			if fp := in.prog.ImportedPackage("fmt"); fp != nil && fp.Type("wrapError") != nil {
				t := fp.Type("wrapError").Type()
				cell := in.newCell(t)
				cell.sub[0].v = s
				cell.sub[1].v = wrapped
				return Iface{t: types.NewPointer(t), v: Ptr{cell}}
			}
		}
		return in.mkErrorStr(s)
	}
	intrinsics["fmt.Sprint"] = func(in *Interp, c *callCtx) Value {
		var ps []piece
		for _, a := range variadicArgs(c.args[0], in) {
			ps = append(ps, in.fmtArg(c.g, 'v', 0, a)...)
		}
		return in.mkRope(ps)
	}
	nopPrint := func(in *Interp, c *callCtx) Value { return Tuple{in.tt.Const(64, 0), Iface{}} }
	intrinsics["fmt.Println"] = nopPrint
	intrinsics["fmt.Printf"] = nopPrint
	intrinsics["fmt.Print"] = nopPrint
	intrinsics["log.Printf"] = func(in *Interp, c *callCtx) Value { return nil }
	intrinsics["log.Println"] = func(in *Interp, c *callCtx) Value { return nil }
	intrinsics["strings.Join"] = func(in *Interp, c *callCtx) Value {
		elems := c.args[0].(SliceV)
		sep := c.args[1].(Str)
		var ps []piece
		for i := 0; i < elems.len; i++ {
			if i > 0 {
				ps = append(ps, in.strToPieces(sep)...)
			}
			ps = append(ps, in.strToPieces(in.load(in.elem(elems.arr, elems.off+i)).(Str))...)
		}
		return in.mkRope(ps)
	}
	intrinsics["strconv.Itoa"] = func(in *Interp, c *callCtx) Value {
		return in.mkRope([]piece{{kind: 2, dec: c.args[0].(*Term), sign: true}})
	}
	intrinsics["strconv.FormatInt"] = func(in *Interp, c *callCtx) Value {
		base := c.args[1].(*Term)
		if !base.IsConst() || base.val != 10 {
			in.unsupported("strconv.FormatInt with base != 10")
		}
		return in.mkRope([]piece{{kind: 2, dec: c.args[0].(*Term), sign: true}})
	}
	intrinsics["strconv.FormatUint"] = func(in *Interp, c *callCtx) Value {
		base := c.args[1].(*Term)
		if !base.IsConst() || base.val != 10 {
			in.unsupported("strconv.FormatUint with base != 10")
		}
		return in.mkRope([]piece{{kind: 2, dec: c.args[0].(*Term), sign: false}})
	}
}

func (in *Interp) mkErrorStr(s Str) Value {
	ep := in.prog.ImportedPackage("errors")
	if ep == nil {
		return Iface{t: types.Typ[types.String], v: s}
	}
	t := ep.Type("errorString").Type()
	c := in.newCell(t)
	c.sub[0].v = s
	return Iface{t: types.NewPointer(t), v: Ptr{c}}
}
