package main

// Goroutines, channels, select, scheduler modes and the happens-before monitor.

import (
	"fmt"
	"go/types"

	"golang.org/x/tools/go/ssa"
)

// ---------------------------------------------------------------- vector clocks

func joinClk(a, b []int) []int {
	if len(b) > len(a) {
		na := make([]int, len(b))
		copy(na, a)
		a = na
	}
	for i, v := range b {
		if v > a[i] {
			a[i] = v
		}
	}
	return a
}

func copyClk(a []int) []int { return append([]int(nil), a...) }

func (in *Interp) tick(g *Goroutine) {
	for len(g.clk) <= g.id {
		g.clk = append(g.clk, 0)
	}
	g.clk[g.id]++
}

func (in *Interp) hbFork(parent, child *Goroutine) {
	child.clk = joinClk(child.clk, parent.clk)
	for len(child.clk) <= child.id {
		child.clk = append(child.clk, 0)
	}
	child.clk[child.id] = 1
	in.tick(parent)
}

// acquire: g learns everything released into clk.
func (in *Interp) hbAcquire(g *Goroutine, clk []int) {
	if clk != nil {
		g.clk = joinClk(g.clk, clk)
	}
}

// release: returns a snapshot of g's clock and advances g.
func (in *Interp) hbRelease(g *Goroutine) []int {
	c := copyClk(g.clk)
	in.tick(g)
	return c
}

func (in *Interp) curSite() string {
	g := in.cur
	if g == nil || len(g.frames) == 0 {
		return "?"
	}
	// innermost frame that is in a package under test (skip runtime/library helpers)
	for i := len(g.frames) - 1; i >= 0; i-- {
		fr := g.frames[i]
		if fr.pc > 0 && fr.pc <= len(fr.block.Instrs) {
			return in.site(fr, fr.block.Instrs[fr.pc-1])
		}
	}
	return g.frames[len(g.frames)-1].fn.String()
}

func (in *Interp) raceRead(c *Cell) {
	if !in.raceOn || in.cur == nil || c == nil {
		return
	}
	g := in.cur
	if c.wG != g.id && c.wC > 0 {
		if c.wG >= len(g.clk) || g.clk[c.wG] < c.wC {
			in.reportRace(c, "read", g, c.wG, c.wSite)
		}
	}
	if c.reads == nil {
		c.reads = map[int]int{}
		c.rSites = map[int]string{}
	}
	c.reads[g.id] = g.clk[g.id]
	c.rSites[g.id] = in.curSite()
}

func (in *Interp) raceWrite(c *Cell) {
	if !in.raceOn || in.cur == nil || c == nil {
		return
	}
	g := in.cur
	if c.wG != g.id && c.wC > 0 {
		if c.wG >= len(g.clk) || g.clk[c.wG] < c.wC {
			in.reportRace(c, "write", g, c.wG, c.wSite)
		}
	}
	for rg, rc := range c.reads {
		if rg != g.id && (rg >= len(g.clk) || g.clk[rg] < rc) {
			in.reportRace(c, "write-after-read", g, rg, c.rSites[rg])
		}
	}
	c.wG, c.wC = g.id, g.clk[g.id]
	c.wSite = in.curSite()
	c.reads = nil
	c.rSites = nil
}

func (in *Interp) reportRace(c *Cell, kind string, g *Goroutine, og int, osite string) {
	msg := fmt.Sprintf("%s at %s (g%d) unordered with access at %s (g%d)", kind, in.curSite(), g.id, osite, og)
	for _, r := range in.races {
		if r == msg {
			return
		}
	}
	in.races = append(in.races, msg)
}

// ---------------------------------------------------------------- scheduler

func (in *Interp) runnable() []*Goroutine {
	var r []*Goroutine
	for _, g := range in.gs {
		if g.status == gRunnable {
			r = append(r, g)
		}
	}
	return r
}

// schedPoint is called before visible operations. In Mode B it may preempt the
// current goroutine (bounded by cfg.Preempt).
func (in *Interp) schedPoint(g *Goroutine, what string) {
	if in.cfg.Sched != "B" || in.preempts >= in.cfg.Preempt || g != in.cur || in.noPreempt > 0 {
		return
	}
	if g.skipSched {
		g.skipSched = false
		return
	}
	for _, f := range g.frames {
		if f.barrier {
			return
		}
	}
	rs := in.runnable()
	if len(rs) <= 1 {
		return
	}
	// choice 0 = continue; choice k = switch to the k-th other runnable goroutine
	var others []*Goroutine
	for _, r := range rs {
		if r != g {
			others = append(others, r)
		}
	}
	in.freeChoices++
	k := in.decideFree(len(others) + 1)
	if k == 0 {
		return
	}
	in.preempts++
	g.skipSched = true
	in.cur = others[k-1]
	in.yieldFlag = true
	panic(blockSignal{}) // re-execute this instruction when g is scheduled again
}

func (in *Interp) block(g *Goroutine, ops []waitOp) {
	g.status = gBlocked
	g.waiting = ops
	in.blockCtr++
	g.blockSeq = in.blockCtr
	panic(blockSignal{})
}

func (in *Interp) wakeG(g *Goroutine, w *wakeInfo) {
	g.status = gRunnable
	g.waiting = nil
	g.wake = w
	g.waitWG = nil
	g.waitMu = nil
}

func (in *Interp) goroutineExit(g *Goroutine) {
	g.status = gDone
}

// pickNext chooses the goroutine to run when the current one cannot continue.
func (in *Interp) pickNext() *Goroutine {
	rs := in.runnable()
	if len(rs) == 0 {
		return nil
	}
	if in.cfg.Sched == "B" && len(rs) > 1 && in.cfg.BlockChoice {
		in.freeChoices++
		return rs[in.decideFree(len(rs))]
	}
	// non-preemptive switches are deterministic: next runnable goroutine in id order
	// after the one that just stopped (round robin); only preemptions are explored.
	last := -1
	if in.cur != nil {
		last = in.cur.id
	}
	if in.cfg.Sched == "B" {
		for _, r := range rs {
			if r.id > last {
				return r
			}
		}
	}
	return rs[0]
}

// runAll runs goroutines until main (gs[0]) finishes.
func (in *Interp) runAll() {
	main := in.gs[0]
	in.cur = main
	for main.status != gDone {
		g := in.cur
		if g == nil || g.status != gRunnable {
			g = in.pickNext()
			if g == nil {
				panic(pathEnd{kind: "deadlock", msg: in.describeBlocked()})
			}
			in.cur = g
		}
		in.yieldFlag = false
		for g.status == gRunnable && in.cur == g && !in.yieldFlag {
			in.step(g)
			if main.status == gDone {
				break
			}
		}
	}
}

// quiesce lets every other goroutine run until all are blocked or done
// (used by harness intrinsics vQuiesce / before leak checks).
func (in *Interp) quiesce(self *Goroutine) {
	for {
		var next *Goroutine
		rs := in.runnable()
		var others []*Goroutine
		for _, r := range rs {
			if r != self {
				others = append(others, r)
			}
		}
		if len(others) == 0 {
			in.cur = self
			return
		}
		if in.cfg.Sched == "B" && len(others) > 1 {
			in.freeChoices++
			next = others[in.decideFree(len(others))]
		} else {
			next = others[0]
		}
		in.cur = next
		in.yieldFlag = false
		for next.status == gRunnable && in.cur == next && !in.yieldFlag {
			in.step(next)
		}
	}
}

func (in *Interp) describeBlocked() string {
	s := ""
	for _, g := range in.gs {
		if g.status == gBlocked {
			where := "?"
			if len(g.frames) > 0 {
				fr := g.frames[len(g.frames)-1]
				if fr.pc < len(fr.block.Instrs) {
					where = in.site(fr, fr.block.Instrs[fr.pc])
				}
			}
			s += fmt.Sprintf("g%d blocked at %s; ", g.id, where)
		}
	}
	return s
}

// ---------------------------------------------------------------- channels

func (in *Interp) blockedOn(ch *Chan, send bool) (*Goroutine, int) {
	var best *Goroutine
	bi := -1
	for _, g := range in.gs {
		if g.status != gBlocked || g == in.cur {
			continue
		}
		for i, w := range g.waiting {
			if w.ch == ch && w.send == send {
				if best == nil || g.blockSeq < best.blockSeq {
					best = g
					bi = i
				}
				break
			}
		}
	}
	return best, bi
}

func (in *Interp) recvReady(ch *Chan) bool {
	if ch == nil {
		return false
	}
	if len(ch.buf) > 0 || ch.closed {
		return true
	}
	g, _ := in.blockedOn(ch, true)
	return g != nil
}

func (in *Interp) sendReady(ch *Chan) bool {
	if ch == nil {
		return false
	}
	if ch.closed || len(ch.buf) < ch.cap {
		return true
	}
	g, _ := in.blockedOn(ch, false)
	return g != nil
}

// doRecv performs a ready receive.
func (in *Interp) doRecv(g *Goroutine, ch *Chan) (Value, bool) {
	if len(ch.buf) > 0 {
		v := ch.buf[0]
		in.hbAcquire(g, ch.bufClk[0])
		ch.buf = ch.buf[1:]
		ch.bufClk = ch.bufClk[1:]
		if s, i := in.blockedOn(ch, true); s != nil {
			w := s.waiting[i]
			ch.buf = append(ch.buf, w.val)
			ch.bufClk = append(ch.bufClk, in.hbReleaseOf(s))
			// k-th receive happens before (k+C)-th send completes
			s.clk = joinClk(s.clk, g.clk)
			in.wakeG(s, &wakeInfo{idx: w.idx, ok: true})
		} else {
			ch.recvClk = append(ch.recvClk, in.hbRelease(g))
		}
		return v, true
	}
	if s, i := in.blockedOn(ch, true); s != nil {
		w := s.waiting[i]
		// rendezvous: synchronise both ways
		sc := in.hbReleaseOf(s)
		rc := in.hbRelease(g)
		in.hbAcquire(g, sc)
		s.clk = joinClk(s.clk, rc)
		in.wakeG(s, &wakeInfo{idx: w.idx, ok: true})
		return w.val, true
	}
	if ch.closed {
		in.hbAcquire(g, ch.clk)
		return in.zero(ch.et), false
	}
	panic("doRecv: not ready")
}

func (in *Interp) hbReleaseOf(g *Goroutine) []int {
	c := copyClk(g.clk)
	in.tick(g)
	return c
}

// doSend performs a ready send.
func (in *Interp) doSend(g *Goroutine, ch *Chan, v Value) {
	if ch.closed {
		in.goPanic(g, "closed", "send on closed channel", nil)
		return
	}
	if r, i := in.blockedOn(ch, false); r != nil {
		w := r.waiting[i]
		sc := in.hbRelease(g)
		rc := in.hbReleaseOf(r)
		r.clk = joinClk(r.clk, sc)
		if ch.cap == 0 {
			in.hbAcquire(g, rc)
		}
		in.wakeG(r, &wakeInfo{idx: w.idx, val: v, ok: true})
		return
	}
	if len(ch.buf) < ch.cap {
		ch.buf = append(ch.buf, v)
		ch.bufClk = append(ch.bufClk, in.hbRelease(g))
		if len(ch.recvClk) > 0 {
			in.hbAcquire(g, ch.recvClk[0])
			ch.recvClk = ch.recvClk[1:]
		}
		return
	}
	panic("doSend: not ready")
}

func (in *Interp) chanClose(g *Goroutine, ch *Chan) {
	in.schedPoint(g, "close")
	if ch == nil {
		in.goPanic(g, "closed", "close of nil channel", nil)
		return
	}
	if ch.closed {
		in.goPanic(g, "closed", "close of closed channel", nil)
		return
	}
	ch.closed = true
	ch.clk = joinClk(ch.clk, in.hbRelease(g))
	for _, o := range in.gs {
		if o.status != gBlocked {
			continue
		}
		for _, w := range o.waiting {
			if w.ch == ch {
				in.wakeG(o, nil) // retry: recv sees closed, send panics
				break
			}
		}
	}
}

func (in *Interp) execSend(g *Goroutine, fr *Frame, x *ssa.Send) {
	ch := in.get(fr, x.Chan).(*Chan)
	if g.wake != nil {
		g.wake = nil
		return
	}
	in.schedPoint(g, "send")
	if ch == nil {
		in.block(g, nil)
	}
	if in.sendReady(ch) {
		in.doSend(g, ch, in.get(fr, x.X))
		return
	}
	in.block(g, []waitOp{{ch: ch, send: true, val: in.get(fr, x.X), idx: -1}})
}

func (in *Interp) execRecv(g *Goroutine, fr *Frame, ch *Chan, commaOk bool, t types.Type) Value {
	mk := func(v Value, ok bool) Value {
		if commaOk {
			return Tuple{v, in.tt.Bool(ok)}
		}
		return v
	}
	if g.wake != nil {
		w := g.wake
		g.wake = nil
		return mk(w.val, w.ok)
	}
	in.schedPoint(g, "recv")
	if ch == nil {
		in.block(g, nil)
	}
	if in.recvReady(ch) {
		v, ok := in.doRecv(g, ch)
		return mk(v, ok)
	}
	in.block(g, []waitOp{{ch: ch, send: false, idx: -1}})
	return nil
}

func (in *Interp) execSelect(g *Goroutine, fr *Frame, x *ssa.Select) {
	tt := in.tt
	// result tuple: (index int, recvOk bool, r_0 T_0, ... r_n-1 T_n-1) for recv states
	mkResult := func(idx int, val Value, ok bool) Value {
		res := Tuple{tt.Const(64, uint64(int64(idx))), tt.Bool(ok)}
		for i, st := range x.States {
			if st.Dir == types.RecvOnly {
				et := st.Chan.Type().Underlying().(*types.Chan).Elem()
				if i == idx && val != nil {
					res = append(res, val)
				} else {
					res = append(res, in.zero(et))
				}
			}
		}
		return res
	}
	if g.wake != nil {
		w := g.wake
		g.wake = nil
		in.set(fr, x, mkResult(w.idx, w.val, w.ok))
		return
	}
	in.schedPoint(g, "select")
	var ready []int
	chans := make([]*Chan, len(x.States))
	for i, st := range x.States {
		ch, _ := in.get(fr, st.Chan).(*Chan)
		chans[i] = ch
		if ch == nil {
			continue
		}
		if st.Dir == types.SendOnly {
			if in.sendReady(ch) {
				ready = append(ready, i)
			}
		} else if in.recvReady(ch) {
			ready = append(ready, i)
		}
	}
	if len(ready) == 0 {
		if !x.Blocking {
			in.set(fr, x, mkResult(-1, nil, false))
			return
		}
		var ops []waitOp
		for i, st := range x.States {
			if chans[i] == nil {
				continue
			}
			op := waitOp{ch: chans[i], send: st.Dir == types.SendOnly, idx: i}
			if op.send {
				op.val = in.get(fr, st.Send)
			}
			ops = append(ops, op)
		}
		in.block(g, ops)
	}
	k := ready[0]
	if len(ready) > 1 && in.cfg.SelectAll {
		in.freeChoices++
		k = ready[in.decideFree(len(ready))]
	} else if len(ready) > 1 && in.cfg.Sched == "B" && in.preempts < in.cfg.Preempt && in.noPreempt == 0 {
		// a non-first ready case is a scheduling choice and is charged to the same budget
		in.freeChoices++
		c := in.decideFree(len(ready))
		if c != 0 {
			in.preempts++
		}
		k = ready[c]
	}
	st := x.States[k]
	if st.Dir == types.SendOnly {
		in.doSend(g, chans[k], in.get(fr, st.Send))
		if g.panic != nil {
			return
		}
		in.set(fr, x, mkResult(k, nil, false))
		return
	}
	v, ok := in.doRecv(g, chans[k])
	in.set(fr, x, mkResult(k, v, ok))
}
