package main

// encoding/xml Encoder / token-level Decoder stubs.
//
// Encoder: EncodeToken/Encode/EncodeElement are recorded as a list of start events
// (depth, element name, attributes). The element name of Encode(v) follows the
// documented precedence (XMLName field tag, XMLName field value, Go type name), read
// from the struct tags of the current tree through go/types; a value whose type has
// a MarshalXML method is marshalled by calling that method (real code).
//
// Decoder: a harness token stream (vXMLStream) is served by Token(); a start token
// may carry a model value, which DecodeElement copies into its target.

import (
	"go/types"
	"reflect"
	"strings"
)

type xmlEvent struct {
	depth int
	name  Str
	attrs [][2]Str
}

type xmlEncState struct {
	events []xmlEvent
	stack  []Str
	bad    string
	toks   []xmlTokRec // what was written, as a token stream (vXMLTokens)
}

type xmlTokRec struct {
	kind  int // 0 start, 1 end
	name  Str
	attrs [][2]Str
	model *Iface // atomic element: the value handed to the reflection encoder
}

type xmlDecState struct {
	toks       []Value // StructV of vXMLTok
	pos        int
	pendingEnd *Str
	model      *Iface
	tokType    *types.Struct
	// limits: one entry per UnmarshalXML call in progress on a container (encoding/xml's
	// pushEOF): Token reports io.EOF once that container's end element has been returned
	limits []*xmlLimit
}

type xmlLimit struct {
	depth int
	done  bool
}

func (ds *xmlDecState) top() *xmlLimit {
	if len(ds.limits) == 0 {
		return nil
	}
	return ds.limits[len(ds.limits)-1]
}

func (in *Interp) encState(c *Cell) *xmlEncState {
	if in.xmlEnc == nil {
		in.xmlEnc = map[*Cell]*xmlEncState{}
	}
	s := in.xmlEnc[c]
	if s == nil {
		s = &xmlEncState{}
		in.xmlEnc[c] = s
	}
	return s
}

func xmlPkgType(in *Interp, name string) types.Type {
	xp := in.prog.ImportedPackage("encoding/xml")
	if xp == nil {
		in.unsupported("encoding/xml not loaded")
	}
	return xp.Type(name).Type()
}

// mkStartElement builds an xml.StartElement value.
func (in *Interp) mkStartElement(local Str, attrs [][2]Str) Value {
	at := xmlPkgType(in, "Attr")
	arr := in.newArray(at, len(attrs))
	for i, a := range attrs {
		in.store(in.elem(arr, i), StructV{[]Value{StructV{[]Value{Str{}, a[0]}}, a[1]}})
	}
	var sl Value = SliceV{}
	if len(attrs) > 0 {
		sl = SliceV{arr: arr, len: len(attrs), cap: len(attrs)}
	}
	return StructV{[]Value{StructV{[]Value{Str{}, local}}, sl}}
}

func (in *Interp) readStartElement(v Value) (Str, [][2]Str) {
	sv := v.(StructV)
	name := sv.f[0].(StructV).f[1].(Str)
	var attrs [][2]Str
	if sl, ok := sv.f[1].(SliceV); ok {
		for i := 0; i < sl.len; i++ {
			a := in.load(in.elem(sl.arr, sl.off+i)).(StructV)
			attrs = append(attrs, [2]Str{a.f[0].(StructV).f[1].(Str), a.f[1].(Str)})
		}
	}
	return name, attrs
}

func (in *Interp) xmlStart(st *xmlEncState, name Str, attrs [][2]Str) {
	st.events = append(st.events, xmlEvent{depth: len(st.stack), name: name, attrs: attrs})
	st.stack = append(st.stack, name)
}

func (in *Interp) xmlEnd(st *xmlEncState, name Str) {
	if len(st.stack) == 0 {
		st.bad = "end element without start"
		return
	}
	top := st.stack[len(st.stack)-1]
	if c := in.strEq(top, name); !c.IsConst() || !c.BoolVal() {
		st.bad = "end element does not match start"
	}
	st.stack = st.stack[:len(st.stack)-1]
}

// xmlDefaultName: element name encoding/xml would use for a value of type t.
func xmlDefaultName(t types.Type, val Value) (string, bool) {
	for {
		if p, ok := t.Underlying().(*types.Pointer); ok {
			t = p.Elem()
			continue
		}
		break
	}
	if st, ok := t.Underlying().(*types.Struct); ok {
		for i := 0; i < st.NumFields(); i++ {
			if st.Field(i).Name() == "XMLName" {
				tag := reflect.StructTag(st.Tag(i)).Get("xml")
				if name := strings.Split(tag, ",")[0]; name != "" {
					parts := strings.Fields(name)
					return parts[len(parts)-1], true
				}
				// XMLName value (xml.Name{Space, Local})
				if sv, ok := val.(StructV); ok {
					if nv, ok := sv.f[i].(StructV); ok && len(nv.f) == 2 {
						if s, ok := nv.f[1].(Str); ok {
							if c, ok := s.Concrete(); ok && c != "" {
								return c, true
							}
						}
					}
				}
			}
		}
	}
	if n, ok := t.(*types.Named); ok {
		return n.Obj().Name(), true
	}
	if b, ok := t.(*types.Basic); ok {
		return b.Name(), true
	}
	return "", false
}

// xmlEncode records (or delegates) the encoding of one value. Returns an error value (Iface).
func (in *Interp) xmlEncode(g *Goroutine, enc Ptr, v Iface, start *Str, startAttrs [][2]Str) Value {
	st := in.encState(enc.c)
	if v.t == nil {
		return Iface{}
	}
	t := v.t
	val := v.v
	// nil pointers encode nothing; MarshalXML on pointer or value receiver
	for {
		if m := in.findMethod(t, "MarshalXML"); m != nil && m.Signature.Params().Len() == 2 {
			if p, ok := val.(Ptr); ok && p.c == nil {
				return Iface{}
			}
			name := Str{}
			if start != nil {
				name = *start
			} else if dn, ok := xmlDefaultName(t, val); ok {
				name = Str{s: dn}
			}
			se := in.mkStartElement(name, startAttrs)
			r := in.callSync(g, &Closure{fn: m}, []Value{val, enc, se})
			if e, ok := r.(Iface); ok {
				return e
			}
			return Iface{}
		}
		p, isPtr := t.Underlying().(*types.Pointer)
		if !isPtr {
			break
		}
		pv := val.(Ptr)
		if pv.c == nil {
			return Iface{}
		}
		t = p.Elem()
		val = in.load(pv.c)
	}
	if sl, ok := t.Underlying().(*types.Slice); ok {
		if eb, isB := sl.Elem().Underlying().(*types.Basic); !(isB && eb.Kind() == types.Uint8) {
			sv := val.(SliceV)
			for i := 0; i < sv.len; i++ {
				ev := in.load(in.elem(sv.arr, sv.off+i))
				var iv Iface
				if x, ok := ev.(Iface); ok {
					iv = x
				} else {
					iv = Iface{t: sl.Elem(), v: ev}
				}
				if e := in.xmlEncode(g, enc, iv, start, startAttrs); !isNilValue(e) {
					return e
				}
			}
			return Iface{}
		}
	}
	name := Str{}
	if dn, ok := xmlDefaultName(t, val); ok && (start == nil || xmlTagName(t) != "") {
		// an XMLName tag overrides the name asked for by the caller
		name = Str{s: dn}
	} else if start != nil {
		name = *start
	} else {
		return in.mkError("xml: unsupported type")
	}
	if stt, ok := t.Underlying().(*types.Struct); ok && in.xmlHasMarshallerField(stt) {
		// a plain container struct (no MarshalXML of its own) some of whose children
		// have hand-written marshallers: encoded field by field by its struct tags
		in.stubsHit["xml container encoding by struct tags of the current tree"]++
		sv, ok := val.(StructV)
		if !ok {
			in.unsupported("xml: container value of unexpected shape")
		}
		in.xmlStart(st, name, startAttrs)
		st.toks = append(st.toks, xmlTokRec{kind: 0, name: name, attrs: startAttrs})
		for i := 0; i < stt.NumFields(); i++ {
			fname, isAttr, special := xmlFieldTag(stt, i)
			if stt.Field(i).Name() == "XMLName" || special {
				continue
			}
			if isAttr {
				in.unsupported("xml: attribute field %s on a tag-encoded container", fname)
			}
			fn := Str{s: fname}
			if e := in.xmlEncode(g, enc, Iface{t: stt.Field(i).Type(), v: sv.f[i]}, &fn, nil); !isNilValue(e) {
				return e
			}
		}
		in.xmlEnd(st, name)
		st.toks = append(st.toks, xmlTokRec{kind: 1, name: name})
		return Iface{}
	}
	in.xmlStart(st, name, startAttrs)
	in.xmlEnd(st, name)
	// the element as an atomic token: a pointer to a copy of the encoded value
	mc := in.newCell(t)
	in.store(mc, in.deepCopy(val, map[*Cell]*Cell{}, map[*MapObj]*MapObj{}))
	st.toks = append(st.toks, xmlTokRec{kind: 0, name: name, attrs: startAttrs, model: &Iface{t: types.NewPointer(t), v: Ptr{mc}}})
	return Iface{}
}

func (in *Interp) decState(c *Cell) *xmlDecState {
	if in.xmlDec == nil {
		in.xmlDec = map[*Cell]*xmlDecState{}
	}
	return in.xmlDec[c]
}

func init() {
	intrinsics["encoding/xml.NewEncoder"] = func(in *Interp, c *callCtx) Value {
		t := xmlPkgType(in, "Encoder")
		in.allocs++
		cell := &Cell{id: in.allocs, typ: t}
		in.encState(cell)
		return Ptr{cell}
	}
	intrinsics["(*encoding/xml.Encoder).Flush"] = func(in *Interp, c *callCtx) Value { return Iface{} }
	intrinsics["(*encoding/xml.Encoder).Close"] = func(in *Interp, c *callCtx) Value { return Iface{} }
	intrinsics["(*encoding/xml.Encoder).Indent"] = func(in *Interp, c *callCtx) Value { return nil }
	intrinsics["(*encoding/xml.Encoder).EncodeToken"] = func(in *Interp, c *callCtx) Value {
		enc := c.args[0].(Ptr)
		st := in.encState(enc.c)
		tok := c.args[1].(Iface)
		if tok.t == nil {
			return in.mkError("xml: EncodeToken of nil token")
		}
		n, _ := tok.t.(*types.Named)
		if n == nil {
			return Iface{}
		}
		in.stubsHit["(*encoding/xml.Encoder).EncodeToken (recorded)"]++
		switch n.Obj().Name() {
		case "StartElement":
			name, attrs := in.readStartElement(tok.v)
			if c, ok := name.Concrete(); ok && c == "" {
				return in.mkError("xml: start tag with no name")
			}
			in.xmlStart(st, name, attrs)
			st.toks = append(st.toks, xmlTokRec{kind: 0, name: name, attrs: attrs})
		case "EndElement":
			name := tok.v.(StructV).f[0].(StructV).f[1].(Str)
			in.xmlEnd(st, name)
			st.toks = append(st.toks, xmlTokRec{kind: 1, name: name})
			if st.bad != "" {
				return in.mkError("xml: " + st.bad)
			}
		}
		return Iface{}
	}
	intrinsics["(*encoding/xml.Encoder).Encode"] = func(in *Interp, c *callCtx) Value {
		in.stubsHit["(*encoding/xml.Encoder).Encode (element name by the documented precedence; MarshalXML methods are called)"]++
		return in.xmlEncode(c.g, c.args[0].(Ptr), c.args[1].(Iface), nil, nil)
	}
	intrinsics["(*encoding/xml.Encoder).EncodeElement"] = func(in *Interp, c *callCtx) Value {
		name, attrs := in.readStartElement(c.args[2])
		in.stubsHit["(*encoding/xml.Encoder).EncodeElement (recorded)"]++
		return in.xmlEncode(c.g, c.args[0].(Ptr), c.args[1].(Iface), &name, attrs)
	}
	rtIntrinsics["vXMLLog"] = func(in *Interp, c *callCtx) Value {
		enc := c.args[0].(Ptr)
		st := in.encState(enc.c)
		et := c.fn.Pkg.Type("vXMLEvent").Type()
		at := c.fn.Pkg.Type("vXMLAttr").Type()
		maxDepth := argInt(c.args[2])
		var evs []xmlEvent
		for _, e := range st.events {
			if e.depth <= maxDepth {
				evs = append(evs, e)
			}
		}
		if st.bad != "" || len(st.stack) != 0 {
			evs = append(append([]xmlEvent{}, evs...), xmlEvent{depth: -1, name: Str{s: "!unbalanced"}})
		}
		arr := in.newArray(et, len(evs))
		for i, e := range evs {
			aarr := in.newArray(at, len(e.attrs))
			for j, a := range e.attrs {
				in.store(in.elem(aarr, j), StructV{[]Value{a[0], a[1]}})
			}
			var asl Value = SliceV{}
			if len(e.attrs) > 0 {
				asl = SliceV{arr: aarr, len: len(e.attrs), cap: len(e.attrs)}
			}
			in.store(in.elem(arr, i), StructV{[]Value{in.tt.Const(64, uint64(int64(e.depth))), e.name, asl}})
		}
		if len(evs) == 0 {
			return SliceV{}
		}
		return SliceV{arr: arr, len: len(evs), cap: len(evs)}
	}

	// vXMLTokens: what the encoder wrote, as a token stream for vXMLStream (natively: the real text)
	rtIntrinsics["vXMLTokens"] = func(in *Interp, c *callCtx) Value {
		enc := c.args[0].(Ptr)
		st := in.encState(enc.c)
		tt := c.fn.Pkg.Type("vXMLTok").Type()
		at := c.fn.Pkg.Type("vXMLAttr").Type()
		if st.bad != "" || len(st.stack) != 0 {
			in.unsupported("vXMLTokens on an unbalanced encoder output")
		}
		arr := in.newArray(tt, len(st.toks))
		for i, r := range st.toks {
			var asl Value = SliceV{}
			if len(r.attrs) > 0 {
				aarr := in.newArray(at, len(r.attrs))
				for j, a := range r.attrs {
					in.store(in.elem(aarr, j), StructV{[]Value{a[0], a[1]}})
				}
				asl = SliceV{arr: aarr, len: len(r.attrs), cap: len(r.attrs)}
			}
			var model Value = Iface{}
			if r.model != nil {
				model = *r.model
			}
			in.store(in.elem(arr, i), StructV{[]Value{in.tt.Const(64, uint64(r.kind)), r.name, asl, model, in.zero(tt.Underlying().(*types.Struct).Field(4).Type())}})
		}
		if len(st.toks) == 0 {
			return SliceV{}
		}
		return SliceV{arr: arr, len: len(st.toks), cap: len(st.toks)}
	}

	// ---- token-level decoder
	rtIntrinsics["vXMLStream"] = func(in *Interp, c *callCtx) Value {
		tn := c.fn.Pkg.Type("vTokReader")
		cell := in.newCell(tn.Type())
		in.store(cell.sub[0], c.args[0])
		return Iface{t: types.NewPointer(tn.Type()), v: Ptr{cell}}
	}
	prevNewDecoder := intrinsics["encoding/xml.NewDecoder"]
	intrinsics["encoding/xml.NewDecoder"] = func(in *Interp, c *callCtx) Value {
		p := prevNewDecoder(in, c).(Ptr)
		r := c.args[0].(Iface)
		if r.t != nil {
			if pt, ok := r.t.(*types.Pointer); ok {
				if n, ok := pt.Elem().(*types.Named); ok && n.Obj().Name() == "vTokReader" {
					toks := in.load(r.v.(Ptr).c.sub[0]).(SliceV)
					ds := &xmlDecState{}
					for i := 0; i < toks.len; i++ {
						ds.toks = append(ds.toks, in.load(in.elem(toks.arr, toks.off+i)))
					}
					if in.xmlDec == nil {
						in.xmlDec = map[*Cell]*xmlDecState{}
					}
					in.xmlDec[p.c] = ds
				}
			}
		}
		return p
	}
	// vXMLTok{Kind int; Name string; Attrs []vXMLAttr; Model interface{}}
	intrinsics["(*encoding/xml.Decoder).Token"] = func(in *Interp, c *callCtx) Value {
		d := c.args[0].(Ptr)
		ds := in.decState(d.c)
		if ds == nil {
			in.unsupported("xml.Decoder.Token over a reader that is not a harness token stream")
		}
		in.stubsHit["(*encoding/xml.Decoder).Token (harness token stream)"]++
		if ds.pendingEnd != nil {
			name := *ds.pendingEnd
			ds.pendingEnd, ds.model = nil, nil
			return Tuple{Iface{t: xmlPkgType(in, "EndElement"), v: StructV{[]Value{StructV{[]Value{Str{}, name}}}}}, Iface{}}
		}
		if l := ds.top(); l != nil && l.done {
			ep := in.prog.ImportedPackage("io")
			return Tuple{Iface{}, in.load(in.global(ep.Var("EOF")))}
		}
		if ds.pos >= len(ds.toks) {
			ep := in.prog.ImportedPackage("io")
			eof := in.load(in.global(ep.Var("EOF")))
			return Tuple{Iface{}, eof}
		}
		tok := ds.toks[ds.pos].(StructV)
		ds.pos++
		kind := tok.f[0].(*Term)
		if !kind.IsConst() {
			in.unsupported("symbolic token kind")
		}
		for kind.I64() == 5 { // hook token: run it, go on with the next token
			if h, ok := tok.f[4].(*Closure); ok && h != nil {
				in.callSync(c.g, h, nil)
			}
			if ds.pos >= len(ds.toks) {
				ep := in.prog.ImportedPackage("io")
				return Tuple{Iface{}, in.load(in.global(ep.Var("EOF")))}
			}
			tok = ds.toks[ds.pos].(StructV)
			ds.pos++
			kind = tok.f[0].(*Term)
		}
		name := tok.f[1].(Str)
		switch kind.I64() {
		case 0: // start
			var attrs [][2]Str
			if sl, ok := tok.f[2].(SliceV); ok {
				for i := 0; i < sl.len; i++ {
					a := in.load(in.elem(sl.arr, sl.off+i)).(StructV)
					attrs = append(attrs, [2]Str{a.f[0].(Str), a.f[1].(Str)})
				}
			}
			if m, ok := tok.f[3].(Iface); ok && m.t != nil {
				mm := m
				ds.model = &mm
				nn := name
				ds.pendingEnd = &nn
			} else if l := ds.top(); l != nil {
				l.depth++
			}
			return Tuple{Iface{t: xmlPkgType(in, "StartElement"), v: in.mkStartElement(name, attrs)}, Iface{}}
		case 1: // end
			if l := ds.top(); l != nil {
				if l.depth == 0 {
					l.done = true
				} else {
					l.depth--
				}
			}
			return Tuple{Iface{t: xmlPkgType(in, "EndElement"), v: StructV{[]Value{StructV{[]Value{Str{}, name}}}}}, Iface{}}
		case 2: // character data
			return Tuple{Iface{t: xmlPkgType(in, "CharData"), v: in.bytesToSlice(in.strBytes(name))}, Iface{}}
		case 3: // comment
			return Tuple{Iface{t: xmlPkgType(in, "Comment"), v: in.bytesToSlice(in.strBytes(name))}, Iface{}}
		default: // malformed document from here on
			ds.pos = len(ds.toks)
			return Tuple{Iface{}, in.mkError("XML syntax error: unexpected EOF")}
		}
	}
	intrinsics["(*encoding/xml.Decoder).DecodeElement"] = func(in *Interp, c *callCtx) Value {
		d := c.args[0].(Ptr)
		ds := in.decState(d.c)
		if ds == nil {
			in.unsupported("xml.Decoder.DecodeElement over a reader that is not a harness token stream")
		}
		in.stubsHit["(*encoding/xml.Decoder).DecodeElement (copies the token's model into the target)"]++
		if ds.model == nil {
			// a container element: decode its children by the struct tags of the target
			target := c.args[1].(Iface)
			tp, ok := target.t.Underlying().(*types.Pointer)
			if !ok {
				return in.mkError("xml: non-pointer passed to Unmarshal")
			}
			tc := target.v.(Ptr).c
			if tc == nil {
				return in.mkError("xml: nil pointer passed to Unmarshal")
			}
			var name Str
			var attrs [][2]Str
			if sp, ok := c.args[2].(Ptr); ok && sp.c != nil {
				name, attrs = in.readStartElement(in.load(sp.c))
			} else {
				in.unsupported("xml.DecodeElement of a container without its start element")
			}
			if l := ds.top(); l != nil {
				l.depth-- // the container's start came from Token; its end is consumed here
			}
			return in.xmlDecodeContainer(c.g, d, ds, tc, tp.Elem(), name, attrs)
		}
		model := *ds.model
		// encoding/xml refuses an element whose name differs from the target's XMLName tag
		if sp, ok := c.args[2].(Ptr); ok && sp.c != nil {
			if want := xmlTagName(c.args[1].(Iface).t); want != "" {
				se := in.load(sp.c).(StructV)
				if have, ok := se.f[0].(StructV).f[1].(Str); ok && have.sym == nil && have.rope == nil && have.s != want {
					ds.model, ds.pendingEnd = nil, nil
					return in.mkError("expected element type <" + want + "> but have <" + have.s + ">")
				}
			}
		}
		ds.model, ds.pendingEnd = nil, nil
		return in.xmlCopyModel(model, c.args[1].(Iface))
	}
	intrinsics["(*encoding/xml.Decoder).Skip"] = func(in *Interp, c *callCtx) Value {
		d := c.args[0].(Ptr)
		ds := in.decState(d.c)
		if ds == nil {
			in.unsupported("xml.Decoder.Skip over a reader that is not a harness token stream")
		}
		if ds.pendingEnd != nil { // the current element is an atomic one
			ds.pendingEnd, ds.model = nil, nil
			return Iface{}
		}
		if l := ds.top(); l != nil {
			l.depth--
		}
		return in.xmlSkip(ds)
	}
}

func (in *Interp) xmlSkip(ds *xmlDecState) Value {
	depth := 1
	for depth > 0 {
		if ds.pos >= len(ds.toks) {
			return in.mkError("XML syntax error: unexpected EOF")
		}
		tok := ds.toks[ds.pos].(StructV)
		ds.pos++
		switch tok.f[0].(*Term).I64() {
		case 0:
			if m, ok := tok.f[3].(Iface); !(ok && m.t != nil) {
				depth++
			}
		case 1:
			depth--
		case 2, 3, 5:
		default:
			ds.pos = len(ds.toks)
			return in.mkError("XML syntax error: unexpected EOF")
		}
	}
	return Iface{}
}

func (in *Interp) xmlCopyModel(model Iface, target Iface) Value {
	tp, ok := target.t.Underlying().(*types.Pointer)
	if !ok {
		return in.mkError("xml: non-pointer passed to Unmarshal")
	}
	cp := in.deepCopy(model.v, map[*Cell]*Cell{}, map[*MapObj]*MapObj{})
	tc := target.v.(Ptr).c
	if tc == nil {
		return in.mkError("xml: nil pointer passed to Unmarshal")
	}
	if types.Identical(tp.Elem(), model.t) { // **T <- *T
		in.store(tc, cp)
		return Iface{}
	}
	if mp, ok := model.t.Underlying().(*types.Pointer); ok && types.Identical(tp.Elem(), mp.Elem()) { // *T <- *T
		src := cp.(Ptr)
		if src.c != nil {
			in.store(tc, in.load(src.c))
		}
		return Iface{}
	}
	return in.mkError("xml: document element does not match the target type (harness model " + model.t.String() + ")")
}

// xmlTagName: the element name fixed by an XMLName field tag of the (pointed-to) struct type.
func xmlTagName(t types.Type) string {
	for i := 0; i < 3 && t != nil; i++ {
		p, ok := t.Underlying().(*types.Pointer)
		if !ok {
			break
		}
		t = p.Elem()
	}
	if t == nil {
		return ""
	}
	st, ok := t.Underlying().(*types.Struct)
	if !ok {
		return ""
	}
	for i := 0; i < st.NumFields(); i++ {
		if st.Field(i).Name() == "XMLName" {
			tag := reflect.StructTag(st.Tag(i)).Get("xml")
			if j := strings.Index(tag, ","); j >= 0 {
				tag = tag[:j]
			}
			if j := strings.LastIndex(tag, " "); j >= 0 {
				tag = tag[j+1:]
			}
			return tag
		}
	}
	return ""
}

// ---- container elements
//
// A start token WITHOUT a model is a container: its children follow as tokens up to
// the matching end token. DecodeElement/Decode of a container into a struct assigns
// each child element to the field whose `xml:"name"` tag (read from the current tree's
// struct types) names it, as encoding/xml does: slices append, pointer fields are
// allocated once and then accumulate (repeated <create> blocks), attributes fill
// `,attr` string fields, unknown children, character data and comments are skipped,
// an XMLName tag that differs from the element name is an error, and a target type
// with an UnmarshalXML method is decoded by that method (the real code). Children
// that carry a model are atomic (copied).

func xmlFieldTag(st *types.Struct, i int) (name string, attr, special bool) {
	tag := reflect.StructTag(st.Tag(i)).Get("xml")
	if tag == "-" {
		return "", false, true
	}
	parts := strings.Split(tag, ",")
	name = parts[0]
	if j := strings.LastIndex(name, " "); j >= 0 {
		name = name[j+1:]
	}
	for _, p := range parts[1:] {
		switch p {
		case "attr":
			attr = true
		case "chardata", "cdata", "innerxml", "comment", "any":
			special = true
		}
	}
	if name == "" && !special {
		name = st.Field(i).Name()
	}
	if strings.Contains(name, ">") {
		special = true
	}
	return
}

// xmlDecodeContainer decodes the children of the container whose start token has just
// been consumed into the value in cell (of Go type t).
func (in *Interp) xmlDecodeContainer(g *Goroutine, dec Ptr, ds *xmlDecState, cell *Cell, t types.Type, name Str, attrs [][2]Str) Value {
	// pointer targets: allocate once, then accumulate
	if p, ok := t.Underlying().(*types.Pointer); ok {
		cur := in.load(cell).(Ptr)
		if cur.c == nil {
			cur = Ptr{in.newCell(p.Elem())}
			in.store(cell, cur)
		}
		return in.xmlDecodeContainer(g, dec, ds, cur.c, p.Elem(), name, attrs)
	}
	if m := in.findMethod(types.NewPointer(t), "UnmarshalXML"); m != nil && m.Signature.Params().Len() == 2 {
		se := in.mkStartElement(name, attrs)
		lim := &xmlLimit{}
		ds.limits = append(ds.limits, lim)
		r := in.callSync(g, &Closure{fn: m}, []Value{Ptr{cell}, dec, se})
		ds.limits = ds.limits[:len(ds.limits)-1]
		if e, ok := r.(Iface); ok && e.t != nil {
			return e
		}
		if !lim.done {
			return in.mkError("xml: UnmarshalXML did not consume entire <" + name.s + "> element")
		}
		return Iface{}
	}
	st, ok := t.Underlying().(*types.Struct)
	if !ok {
		in.unsupported("xml: container element decoded into %s", t)
	}
	if want := xmlTagName(t); want != "" {
		if name.sym == nil && name.rope == nil && name.s != want {
			in.xmlSkip(ds)
			return in.mkError("expected element type <" + want + "> but have <" + name.s + ">")
		}
	}
	in.stubsHit["xml container decoding by struct tags of the current tree"]++
	for i := 0; i < st.NumFields(); i++ {
		fname, isAttr, special := xmlFieldTag(st, i)
		if !isAttr || special {
			continue
		}
		for _, a := range attrs {
			if a[0].sym == nil && a[0].rope == nil && a[0].s == fname {
				if isString(st.Field(i).Type()) {
					in.store(cell.sub[i], a[1])
				} else {
					in.unsupported("xml: attribute %s of non-string type %s on a container", fname, st.Field(i).Type())
				}
			}
		}
	}
	for {
		if ds.pos >= len(ds.toks) {
			return in.mkError("XML syntax error: unexpected EOF")
		}
		tok := ds.toks[ds.pos].(StructV)
		ds.pos++
		kind := tok.f[0].(*Term)
		if !kind.IsConst() {
			in.unsupported("symbolic token kind")
		}
		switch kind.I64() {
		case 1:
			return Iface{}
		case 2, 3:
			continue
		case 5:
			if h, ok := tok.f[4].(*Closure); ok && h != nil {
				in.callSync(g, h, nil)
			}
			continue
		case 0:
		default:
			ds.pos = len(ds.toks)
			return in.mkError("XML syntax error: unexpected EOF")
		}
		cname := tok.f[1].(Str)
		var cattrs [][2]Str
		if sl, ok := tok.f[2].(SliceV); ok {
			for i := 0; i < sl.len; i++ {
				a := in.load(in.elem(sl.arr, sl.off+i)).(StructV)
				cattrs = append(cattrs, [2]Str{a.f[0].(Str), a.f[1].(Str)})
			}
		}
		var model *Iface
		if m, ok := tok.f[3].(Iface); ok && m.t != nil {
			mm := m
			model = &mm
		}
		if cname.sym != nil || cname.rope != nil {
			in.unsupported("xml: symbolic element name inside a container")
		}
		fi := -1
		for i := 0; i < st.NumFields(); i++ {
			fname, isAttr, special := xmlFieldTag(st, i)
			if !isAttr && !special && fname == cname.s && st.Field(i).Name() != "XMLName" {
				fi = i
				break
			}
		}
		if fi < 0 { // unknown element: skipped
			if model == nil {
				if e := in.xmlSkip(ds); !isNilValue(e) {
					return e
				}
			}
			continue
		}
		ft := st.Field(fi).Type()
		fc := cell.sub[fi]
		var e Value = Iface{}
		if sl, ok := ft.Underlying().(*types.Slice); ok {
			ec := in.newCell(sl.Elem())
			e = in.xmlDecodeChild(g, dec, ds, ec, sl.Elem(), cname, cattrs, model)
			if isNilValue(e) {
				cur, _ := in.load(fc).(SliceV)
				in.store(fc, in.appendVals(cur, []Value{in.load(ec)}, sl.Elem()))
			}
		} else {
			e = in.xmlDecodeChild(g, dec, ds, fc, ft, cname, cattrs, model)
		}
		if !isNilValue(e) {
			return e
		}
	}
}

// xmlDecodeChild: one child element into the value in cell: atomic (model copy) or container.
func (in *Interp) xmlDecodeChild(g *Goroutine, dec Ptr, ds *xmlDecState, cell *Cell, t types.Type, name Str, attrs [][2]Str, model *Iface) Value {
	if model == nil {
		return in.xmlDecodeContainer(g, dec, ds, cell, t, name, attrs)
	}
	if want := xmlTagName(t); want != "" && name.s != want {
		return in.mkError("expected element type <" + want + "> but have <" + name.s + ">")
	}
	return in.xmlCopyModel(*model, Iface{t: types.NewPointer(t), v: Ptr{cell}})
}

// xmlDecodeDocument: (*Decoder).Decode over a token stream.
func (in *Interp) xmlDecodeDocument(g *Goroutine, dec Ptr, ds *xmlDecState, target Iface) Value {
	tp, ok := target.t.Underlying().(*types.Pointer)
	if !ok {
		return in.mkError("xml: non-pointer passed to Unmarshal")
	}
	tc := target.v.(Ptr).c
	if tc == nil {
		return in.mkError("xml: nil pointer passed to Unmarshal")
	}
	for {
		if ds.pos >= len(ds.toks) {
			return in.load(in.global(in.prog.ImportedPackage("io").Var("EOF")))
		}
		tok := ds.toks[ds.pos].(StructV)
		ds.pos++
		kind := tok.f[0].(*Term)
		if !kind.IsConst() {
			in.unsupported("symbolic token kind")
		}
		switch kind.I64() {
		case 0:
			name := tok.f[1].(Str)
			var attrs [][2]Str
			if sl, ok := tok.f[2].(SliceV); ok {
				for i := 0; i < sl.len; i++ {
					a := in.load(in.elem(sl.arr, sl.off+i)).(StructV)
					attrs = append(attrs, [2]Str{a.f[0].(Str), a.f[1].(Str)})
				}
			}
			var model *Iface
			if m, ok := tok.f[3].(Iface); ok && m.t != nil {
				mm := m
				model = &mm
			}
			in.stubsHit["(*encoding/xml.Decoder).Decode over a harness token stream"]++
			return in.xmlDecodeChild(g, dec, ds, tc, tp.Elem(), name, attrs, model)
		case 2, 3:
			continue
		case 5:
			if h, ok := tok.f[4].(*Closure); ok && h != nil {
				in.callSync(g, h, nil)
			}
		case 1:
			return in.mkError("XML syntax error: unexpected end element")
		default:
			ds.pos = len(ds.toks)
			return in.mkError("XML syntax error: unexpected EOF")
		}
	}
}

// xmlHasMarshallerField: some field's (element) type has a MarshalXML method.
func (in *Interp) xmlHasMarshallerField(st *types.Struct) bool {
	// only pure containers: no attribute / chardata fields (those are leaves for this stub)
	for i := 0; i < st.NumFields(); i++ {
		if _, isAttr, special := xmlFieldTag(st, i); (isAttr || special) && st.Field(i).Name() != "XMLName" {
			return false
		}
	}
	for i := 0; i < st.NumFields(); i++ {
		t := st.Field(i).Type()
		for k := 0; k < 3; k++ {
			if in.findMethod(t, "MarshalXML") != nil || in.findMethod(types.NewPointer(t), "MarshalXML") != nil {
				return true
			}
			switch u := t.Underlying().(type) {
			case *types.Slice:
				t = u.Elem()
				continue
			case *types.Pointer:
				t = u.Elem()
				continue
			}
			break
		}
	}
	return false
}
