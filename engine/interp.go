package main

// The SSA interpreter: deterministic given a decision sequence; every scalar is
// an SMT term; branches on symbolic conditions and scheduler choices are
// "decisions" resolved by the explorer (explore.go) through re-execution.

import (
	"fmt"
	"os"
	"go/constant"
	"go/token"
	"go/types"
	"sort"
	"strings"

	"golang.org/x/tools/go/ssa"
)

type pathEnd struct {
	kind string // assume, unsupported, unwind, steps, infeasible, deadlock, panic, internal
	msg  string
}

// redirects replace an environment function by a harness-runtime function of the
// same package (the inflater stub).
var redirects = map[string]string{
	"github.com/paulmach/osm/osmpbf.zlibReader": "vZOpen",
}

type opaqueCall struct{}

// SymPtr is a pointer to one of several cells selected by mutually exclusive
// guards; it is only created for an IndexAddr whose single use is a load.
type SymPtr struct {
	cells []*Cell
	conds []*Term
}

// iteVal merges two values of the same shape under a condition.
func (in *Interp) iteVal(c *Term, a, b Value) (Value, bool) {
	switch x := a.(type) {
	case *Term:
		y, ok := b.(*Term)
		if !ok || x.sort != y.sort {
			return nil, false
		}
		return in.tt.Ite(c, x, y), true
	case Str:
		y, ok := b.(Str)
		if !ok || x.Len() != y.Len() {
			return nil, false
		}
		if x.sym == nil && y.sym == nil && x.s == y.s {
			return x, true
		}
		r := make([]*Term, x.Len())
		for i := range r {
			r[i] = in.tt.Ite(c, in.strByte(x, i), in.strByte(y, i))
		}
		return in.mkStr(r), true
	case StructV:
		y, ok := b.(StructV)
		if !ok || len(x.f) != len(y.f) {
			return nil, false
		}
		f := make([]Value, len(x.f))
		for i := range f {
			v, ok := in.iteVal(c, x.f[i], y.f[i])
			if !ok {
				return nil, false
			}
			f[i] = v
		}
		return StructV{f}, true
	case Ptr:
		y, ok := b.(Ptr)
		if ok && x.c == y.c {
			return x, true
		}
		return nil, false
	case SliceV:
		y, ok := b.(SliceV)
		if ok && x == y {
			return x, true
		}
		return nil, false
	case Iface:
		y, ok := b.(Iface)
		if ok && x.t == nil && y.t == nil {
			return x, true
		}
		return nil, false
	}
	return nil, false
}

var opaqueT = types.NewNamed(types.NewTypeName(token.NoPos, nil, "symgo.opaque", nil), types.NewStruct(nil, nil), nil)

type blockSignal struct{}
type resumeUnwind struct{}

type fnInfo struct {
	slots map[ssa.Value]int
	n     int
}

type deferRec struct {
	fn   Value // *Closure | *ssa.Function handled as closure | BuiltinV
	args []Value
	site string
}

type Frame struct {
	fn        *ssa.Function
	info      *fnInfo
	env       []Value
	block     *ssa.BasicBlock
	prev      *ssa.BasicBlock
	pc        int
	defers    []*deferRec
	deferMode int // 0 none, 1 RunDefers (normal), 2 panicking
	retTo     ssa.Value
	deferOf   *Frame // this frame is a deferred call of deferOf
	barrier   bool   // callSync barrier
	retVal    Value  // set when barrier frame returns
	returned  bool
	unwound   bool
	back      map[int]int
	symBack   int
	goStart   bool
}

type panicRec struct {
	val     Value
	kind    string // explicit, bounds, nil, divide, typeassert, closed, negativelen, other
	site    string
	recovered bool
}

const (
	gRunnable = iota
	gBlocked
	gDone
)

type wakeInfo struct {
	idx int
	val Value
	ok  bool
	clk []int
}

type Goroutine struct {
	id       int
	frames   []*Frame
	status   int
	waiting  []waitOp
	blockSeq int
	wake     *wakeInfo
	panic    *panicRec
	clk      []int
	waitWG   *Cell
	waitMu   *Cell
	name     string
	skipSched bool
}

type Interp struct {
	prog  *ssa.Program
	tt    *TermTable
	ex    *Explorer
	cfg   *HarnessCfg
	infos map[*ssa.Function]*fnInfo

	// per-run state
	pc        []*Term
	globals   map[*ssa.Global]*Cell
	inited    map[*ssa.Package]bool
	gs        []*Goroutine
	cur       *Goroutine
	allocs    int
	steps     int
	decIdx    int
	prefix    []int
	trace     []int
	vars      []*Term          // symbolic inputs created on this path in order
	varNames  map[string]int   // occurrence counters
	varKinds  map[string]string
	reached   map[string]bool
	pathAsserts map[string]int
	congUsed  int
	pbMerge   bool // proto.UnmarshalOptions{Merge: true} in progress
	noCong    bool
	exactOf   map[int]*Term // strong (congruence) boolean -> exact twin
	freeChoices int // schedule / map-order / sort-permutation choices on this path (not reproducible natively)
	notes     []string
	blockCtr  int
	preempts  int
	raceOn    bool
	races     []string
	funcsHit  map[string]int
	stubsHit  map[string]int
	hbSyncs   int
	chanCtr   int
	script    map[string]uint64 // concrete mode: values for inputs
	concrete  bool
	failLabel string
	constCache map[*ssa.Const]Value
	deferDepth int
	objs map[string]Value
	solver   *Solver
	solver2  *Solver
	hardMemo map[int]bool
	unknowns int
	yieldFlag bool
	ranges   map[string]uint64
	noPreempt int
	xmlEnc   map[*Cell]*xmlEncState
	xmlDec   map[*Cell]*xmlDecState
	model    map[string]uint64 // satisfying assignment of the current path condition (nil = unknown)
}

func (in *Interp) info(fn *ssa.Function) *fnInfo {
	if fi, ok := in.infos[fn]; ok {
		return fi
	}
	fi := &fnInfo{slots: map[ssa.Value]int{}}
	add := func(v ssa.Value) {
		fi.slots[v] = fi.n
		fi.n++
	}
	for _, p := range fn.Params {
		add(p)
	}
	for _, f := range fn.FreeVars {
		add(f)
	}
	for _, b := range fn.Blocks {
		for _, ins := range b.Instrs {
			if v, ok := ins.(ssa.Value); ok {
				add(v)
			}
		}
	}
	in.infos[fn] = fi
	return fi
}

func (in *Interp) resetRun(prefix []int) {
	in.pc = in.pc[:0]
	in.globals = map[*ssa.Global]*Cell{}
	in.inited = map[*ssa.Package]bool{}
	in.gs = nil
	in.cur = nil
	in.allocs = 0
	in.steps = 0
	in.decIdx = 0
	in.prefix = prefix
	in.trace = in.trace[:0]
	in.vars = nil
	in.varNames = map[string]int{}
	in.varKinds = map[string]string{}
	in.reached = map[string]bool{}
	in.pathAsserts = map[string]int{}
	in.exactOf = nil
	in.noCong = false
	in.freeChoices = 0
	in.notes = nil
	in.blockCtr = 0
	in.preempts = 0
	in.races = nil
	in.chanCtr = 0
	in.failLabel = ""
	in.objs = map[string]Value{}
	in.ranges = nil
	in.noPreempt = 0
	in.xmlEnc, in.xmlDec = nil, nil
	in.model = map[string]uint64{} // the empty path condition is satisfied by anything
	in.raceOn = in.cfg.Race
}

func (in *Interp) unsupported(format string, a ...interface{}) {
	msg := fmt.Sprintf(format, a...)
	if in.cur != nil && len(in.cur.frames) > 0 {
		msg += " in " + in.cur.frames[len(in.cur.frames)-1].fn.String()
		if len(in.cur.frames) > 1 {
			msg += " <- " + in.cur.frames[len(in.cur.frames)-2].fn.String()
		}
	}
	panic(pathEnd{kind: "unsupported", msg: msg})
}

func posStr(prog *ssa.Program, p token.Pos) string {
	if !p.IsValid() {
		return "?"
	}
	ps := prog.Fset.Position(p)
	f := ps.Filename
	if i := strings.LastIndex(f, "/"); i >= 0 {
		f = f[i+1:]
	}
	return fmt.Sprintf("%s:%d", f, ps.Line)
}

func (in *Interp) site(fr *Frame, ins ssa.Instruction) string {
	if !ins.Pos().IsValid() && os.Getenv("SYMGO_DEBUG") != "" {
		return fr.fn.String() + "@[" + ins.String() + "]"
	}
	return fr.fn.String() + "@" + posStr(in.prog, ins.Pos())
}

// ---------------------------------------------------------------- values

func (in *Interp) constVal(c *ssa.Const) Value {
	if v, ok := in.constCache[c]; ok {
		return v
	}
	v := in.constVal0(c)
	in.constCache[c] = v
	return v
}

func (in *Interp) constVal0(c *ssa.Const) Value {
	t := c.Type()
	if c.Value == nil {
		if _, ok := t.Underlying().(*types.Basic); ok && t.Underlying().(*types.Basic).Kind() == types.UntypedNil {
			return nil
		}
		return in.zero(t)
	}
	if w, signed, ok := isInt(t); ok {
		v := constant.ToInt(c.Value)
		if signed {
			i, _ := constant.Int64Val(v)
			return in.tt.Const(w, uint64(i))
		}
		u, exact := constant.Uint64Val(v)
		if !exact {
			i, _ := constant.Int64Val(v)
			u = uint64(i)
		}
		return in.tt.Const(w, u)
	}
	if w, ok := isFloat(t); ok {
		f, _ := constant.Float64Val(c.Value)
		return in.tt.fconst(w, f)
	}
	if isBool(t) {
		return in.tt.Bool(constant.BoolVal(c.Value))
	}
	if isString(t) {
		return Str{s: constant.StringVal(c.Value)}
	}
	in.unsupported("constant of type %s", t)
	return nil
}

func (in *Interp) get(fr *Frame, v ssa.Value) Value {
	switch x := v.(type) {
	case *ssa.Const:
		return in.constVal(x)
	case *ssa.Function:
		return &Closure{fn: x}
	case *ssa.Global:
		return Ptr{in.global(x)}
	case *ssa.Builtin:
		return BuiltinV{x}
	}
	i, ok := fr.info.slots[v]
	if !ok {
		panic(fmt.Sprintf("no slot for %s in %s", v.Name(), fr.fn))
	}
	return fr.env[i]
}

func (in *Interp) set(fr *Frame, v ssa.Value, val Value) {
	fr.env[fr.info.slots[v]] = val
}

func (in *Interp) global(g *ssa.Global) *Cell {
	if c, ok := in.globals[g]; ok {
		return c
	}
	in.ensureInit(g.Pkg)
	if c, ok := in.globals[g]; ok {
		return c
	}
	c := in.newCell(g.Type().(*types.Pointer).Elem())
	in.globals[g] = c
	return c
}

func (in *Interp) rawGlobal(g *ssa.Global) *Cell {
	if c, ok := in.globals[g]; ok {
		return c
	}
	c := in.newCell(g.Type().(*types.Pointer).Elem())
	in.globals[g] = c
	return c
}

// ensureInit runs the package initializer (variable initializers, and user init
// functions unless configured otherwise) the first time a global is touched.
func (in *Interp) ensureInit(p *ssa.Package) {
	if p == nil || in.inited[p] {
		return
	}
	in.inited[p] = true
	if !initAllowed(p.Pkg.Path()) {
		return
	}
	initFn := p.Func("init")
	if initFn == nil || initFn.Blocks == nil {
		return
	}
	saveRace := in.raceOn
	in.raceOn = false
	in.callSync(in.cur, &Closure{fn: initFn}, nil)
	in.raceOn = saveRace
}

// ---------------------------------------------------------------- frames

func (in *Interp) newGoroutine(name string) *Goroutine {
	g := &Goroutine{id: len(in.gs), name: name}
	g.clk = make([]int, g.id+1)
	g.clk[g.id] = 1
	in.gs = append(in.gs, g)
	return g
}

func (in *Interp) pushFrame(g *Goroutine, fn *ssa.Function, args []Value, fv []Value, retTo ssa.Value) *Frame {
	if fn.Blocks == nil {
		in.unsupported("external function without body: %s", fn)
	}
	if len(g.frames) > in.cfg.MaxDepth {
		panic(pathEnd{kind: "unwind", msg: "call depth exceeded in " + fn.String()})
	}
	fi := in.info(fn)
	fr := &Frame{fn: fn, info: fi, env: make([]Value, fi.n), block: fn.Blocks[0], retTo: retTo}
	k := 0
	if len(args) != len(fn.Params) {
		panic(fmt.Sprintf("arity mismatch calling %s: %d args, %d params", fn, len(args), len(fn.Params)))
	}
	for _, a := range args {
		fr.env[k] = a
		k++
	}
	for _, a := range fv {
		fr.env[k] = a
		k++
	}
	g.frames = append(g.frames, fr)
	in.funcsHit[fn.String()]++
	return fr
}

// callValue calls a function value (closure, function, bound method).
func (in *Interp) callValue(g *Goroutine, f Value, args []Value, retTo ssa.Value) (Value, bool) {
	switch x := f.(type) {
	case *Closure:
		if x == nil {
			in.goPanic(g, "nil", "call of nil func", nil)
			return nil, false
		}
		return in.callFn(g, x.fn, args, x.fv, retTo)
	case BuiltinV:
		return in.builtin(g, x.b.Name(), args, nil), true
	}
	panic(fmt.Sprintf("callValue: %T", f))
}

// callFn either runs an intrinsic (returning its value, done=true) or pushes a
// frame (done=false; the value arrives via retTo when the frame returns).
func (in *Interp) callFn(g *Goroutine, fn *ssa.Function, args []Value, fv []Value, retTo ssa.Value) (Value, bool) {
	name := fn.String()
	if o := fn.Origin(); o != nil {
		name = o.String()
	}
	if to, ok := redirects[name]; ok && fn.Pkg != nil {
		if rf := fn.Pkg.Func(to); rf != nil {
			in.stubsHit["redirect:"+name+" -> "+to]++
			fn = rf
		}
	}
	if intr, ok := intrinsics[name]; ok {
		v, pushed := in.runIntrinsic(intr, &callCtx{g: g, fn: fn, args: args, retTo: retTo})
		if pushed {
			return nil, false
		}
		in.stubsHit[name]++
		return v, true
	}
	if fn.Pkg != nil && len(fn.Name()) > 1 && fn.Name()[0] == 'v' {
		if intr, ok := rtIntrinsics[fn.Name()]; ok && isRT(fn, in.prog) {
			return intr(in, &callCtx{g: g, fn: fn, args: args, retTo: retTo}), true
		}
	}
	if fn.Pkg != nil && fn.Name() == "init" && fn.Synthetic != "" && fn.Signature.Recv() == nil {
		if in.inited[fn.Pkg] && len(g.frames) > 0 && g.frames[len(g.frames)-1].fn != fn {
			// already initialised (or in progress) through ensureInit
		}
		in.inited[fn.Pkg] = true
		if !initAllowed(fn.Pkg.Pkg.Path()) {
			return nil, true
		}
	}
	if fn.Blocks == nil && strings.Contains(fn.Name(), "runtime_") && !strings.Contains(fn.Name(), "Semacquire") {
		in.stubsHit["noop:"+name]++
		res := fn.Signature.Results()
		switch res.Len() {
		case 0:
			return nil, true
		case 1:
			return in.zero(res.At(0).Type()), true
		}
		return in.zero(res), true
	}
	if fn.Blocks == nil {
		// method wrappers and generic instances are built lazily by go/ssa; anything
		// else without a body is external (assembly / linkname)
		in.unsupported("external function %s", name)
	}
	in.pushFrame(g, fn, args, fv, retTo)
	return nil, false
}

// runIntrinsic calls an intrinsic; an intrinsic may decline by pushing the real
// function's frame and panicking with framePushed.
func (in *Interp) runIntrinsic(intr intrinsic, c *callCtx) (v Value, pushed bool) {
	defer func() {
		if r := recover(); r != nil {
			if _, ok := r.(framePushed); ok {
				pushed = true
				return
			}
			panic(r)
		}
	}()
	return intr(in, c), false
}

// callSync runs a function value to completion on goroutine g and returns its result.
func (in *Interp) callSync(g *Goroutine, f Value, args []Value) Value {
	if g == nil {
		g = in.cur
	}
	cl, ok := f.(*Closure)
	if !ok || cl == nil {
		panic(fmt.Sprintf("callSync: %T", f))
	}
	base := len(g.frames)
	v, done := in.callFn(g, cl.fn, args, cl.fv, nil)
	if done {
		return v
	}
	fr := g.frames[len(g.frames)-1]
	fr.barrier = true
	for !fr.returned {
		if len(g.frames) <= base {
			// a Go panic unwound through the barrier
			return nil
		}
		if g.status != gRunnable {
			in.unsupported("blocking operation inside synchronous callback %s", cl.fn)
		}
		in.step(g)
	}
	if g.panic != nil && !g.panic.recovered && fr.retVal == nil && fr.unwound {
		panic(resumeUnwind{})
	}
	return fr.retVal
}

// ---------------------------------------------------------------- panics

func (in *Interp) runtimeErr(msg string) Value {
	// a runtime.Error-like value; dynamic type *errors.errorString is close enough
	// for code that prints or type-switches on error.
	return in.mkError("runtime error: " + msg)
}

func (in *Interp) goPanic(g *Goroutine, kind, msg string, val Value) {
	fr := g.frames[len(g.frames)-1]
	site := fr.fn.String()
	if fr.pc > 0 && fr.pc <= len(fr.block.Instrs) {
		site = in.site(fr, fr.block.Instrs[fr.pc-1])
	}
	if val == nil {
		val = in.runtimeErr(msg)
	}
	g.panic = &panicRec{val: val, kind: kind, site: site + ": " + msg}
	in.unwind(g)
}

// unwind continues panic propagation on g: run deferred calls of the top frame.
func (in *Interp) unwind(g *Goroutine) {
	for {
		if len(g.frames) == 0 {
			p := g.panic
			panic(pathEnd{kind: "panic", msg: p.kind + ": " + p.site})
		}
		fr := g.frames[len(g.frames)-1]
		if fr.barrier && len(fr.defers) == 0 {
			// let callSync observe the unwinding
		}
		fr.deferMode = 2
		if len(fr.defers) > 0 {
			in.startDefer(g, fr)
			return
		}
		g.frames = g.frames[:len(g.frames)-1]
		if fr.deferOf != nil {
			// a deferred call panicked itself: continue unwinding in its owner
			continue
		}
		if fr.barrier {
			fr.returned = true
			fr.unwound = true
			return
		}
	}
}

func (in *Interp) startDefer(g *Goroutine, fr *Frame) {
	d := fr.defers[len(fr.defers)-1]
	fr.defers = fr.defers[:len(fr.defers)-1]
	// deferred builtins/intrinsics run without a scheduling point (the defer record is
	// already consumed, the instruction cannot be re-executed)
	in.noPreempt++
	defer func() {
		in.noPreempt--
		if r := recover(); r != nil {
			if _, ok := r.(blockSignal); ok {
				panic(pathEnd{kind: "unsupported", msg: "blocking intrinsic in a deferred call"})
			}
			panic(r)
		}
	}()
	switch f := d.fn.(type) {
	case BuiltinV:
		in.builtin(g, f.b.Name(), d.args, nil)
		in.afterDefer(g, fr)
	case *Closure:
		if f == nil {
			in.goPanic(g, "nil", "deferred call of nil func", nil)
			return
		}
		v, done := in.callFn(g, f.fn, d.args, f.fv, nil)
		_ = v
		if done {
			in.afterDefer(g, fr)
			return
		}
		g.frames[len(g.frames)-1].deferOf = fr
	default:
		panic(fmt.Sprintf("startDefer: %T", d.fn))
	}
}

// afterDefer is called when one deferred call of fr has completed.
func (in *Interp) afterDefer(g *Goroutine, fr *Frame) {
	if len(fr.defers) > 0 {
		in.startDefer(g, fr)
		return
	}
	switch fr.deferMode {
	case 1:
		fr.deferMode = 0 // continue after RunDefers
	case 2:
		if g.panic != nil && !g.panic.recovered {
			// still panicking: pop and continue in caller
			g.frames = g.frames[:len(g.frames)-1]
			if fr.barrier {
				fr.returned = true
				fr.unwound = true
				return
			}
			in.unwind(g)
			return
		}
		// recovered: resume at the Recover block, or return zero values
		g.panic = nil
		fr.deferMode = 0
		if fr.fn.Recover != nil {
			fr.prev = fr.block
			fr.block = fr.fn.Recover
			fr.pc = 0
			return
		}
		var rv Value
		res := fr.fn.Signature.Results()
		switch res.Len() {
		case 0:
		case 1:
			rv = in.zero(res.At(0).Type())
		default:
			rv = in.zero(res)
		}
		in.doReturn(g, fr, rv)
	}
}

func (in *Interp) doReturn(g *Goroutine, fr *Frame, rv Value) {
	g.frames = g.frames[:len(g.frames)-1]
	if fr.barrier {
		fr.retVal = rv
		fr.returned = true
		return
	}
	if fr.deferOf != nil {
		in.afterDefer(g, fr.deferOf)
		return
	}
	if len(g.frames) == 0 {
		g.status = gDone
		in.goroutineExit(g)
		return
	}
	if fr.retTo != nil {
		caller := g.frames[len(g.frames)-1]
		in.set(caller, fr.retTo, rv)
	}
}

// ---------------------------------------------------------------- stepping

func (in *Interp) jump(fr *Frame, to *ssa.BasicBlock, symbolic bool) {
	if to.Index <= fr.block.Index {
		if fr.back == nil {
			fr.back = map[int]int{}
		}
		fr.back[to.Index]++
		if fr.back[to.Index] > in.cfg.Unwind {
			panic(pathEnd{kind: "unwind", msg: fmt.Sprintf("loop bound %d exceeded in %s", in.cfg.Unwind, fr.fn)})
		}
	}
	fr.prev = fr.block
	fr.block = to
	fr.pc = 0
	// evaluate phis simultaneously
	var vals []Value
	n := 0
	for _, ins := range to.Instrs {
		phi, ok := ins.(*ssa.Phi)
		if !ok {
			break
		}
		idx := -1
		for i, p := range to.Preds {
			if p == fr.prev {
				idx = i
				break
			}
		}
		vals = append(vals, in.get(fr, phi.Edges[idx]))
		n++
	}
	for i := 0; i < n; i++ {
		in.set(fr, to.Instrs[i].(*ssa.Phi), vals[i])
	}
	fr.pc = n
}

func (in *Interp) step(g *Goroutine) {
	in.steps++
	if in.steps > in.cfg.Steps {
		panic(pathEnd{kind: "steps", msg: fmt.Sprintf("step bound %d exceeded", in.cfg.Steps)})
	}
	fr := g.frames[len(g.frames)-1]
	if fr.deferMode == 1 && len(fr.defers) > 0 {
		in.startDefer(g, fr)
		return
	}
	ins := fr.block.Instrs[fr.pc]
	fr.pc++
	defer func() {
		if r := recover(); r != nil {
			if _, ok := r.(blockSignal); ok {
				fr.pc--
				return
			}
			if _, ok := r.(resumeUnwind); ok {
				in.unwind(g)
				return
			}
			panic(r)
		}
	}()
	in.exec(g, fr, ins)
}

func (in *Interp) truth(v Value) *Term { return v.(*Term) }

func (in *Interp) exec(g *Goroutine, fr *Frame, ins ssa.Instruction) {
	tt := in.tt
	switch x := ins.(type) {
	case *ssa.DebugRef:
	case *ssa.Alloc:
		c := in.newCell(x.Type().(*types.Pointer).Elem())
		in.set(fr, x, Ptr{c})
	case *ssa.UnOp:
		in.set(fr, x, in.unop(g, fr, x))
	case *ssa.BinOp:
		in.set(fr, x, in.binop(g, x.Op, in.get(fr, x.X), in.get(fr, x.Y), x.X.Type(), x.Y.Type()))
	case *ssa.Store:
		p := in.get(fr, x.Addr).(Ptr)
		if p.c == nil {
			in.goPanic(g, "nil", "nil pointer dereference (store)", nil)
			return
		}
		in.store(p.c, in.get(fr, x.Val))
	case *ssa.Jump:
		in.jump(fr, fr.block.Succs[0], false)
	case *ssa.If:
		c := in.truth(in.get(fr, x.Cond))
		if in.branch(c) {
			in.jump(fr, fr.block.Succs[0], !c.IsConst())
		} else {
			in.jump(fr, fr.block.Succs[1], !c.IsConst())
		}
	case *ssa.Return:
		var rv Value
		switch len(x.Results) {
		case 0:
		case 1:
			rv = in.get(fr, x.Results[0])
		default:
			tp := make(Tuple, len(x.Results))
			for i, r := range x.Results {
				tp[i] = in.get(fr, r)
			}
			rv = tp
		}
		in.doReturn(g, fr, rv)
	case *ssa.RunDefers:
		if len(fr.defers) > 0 {
			fr.deferMode = 1
			in.startDefer(g, fr)
		}
	case *ssa.Panic:
		v := in.get(fr, x.X)
		g.panic = &panicRec{val: v, kind: "explicit", site: in.site(fr, x) + ": " + in.describePanic(v)}
		in.unwind(g)
	case *ssa.Call:
		in.execCall(g, fr, x, &x.Call, x)
	case *ssa.Defer:
		fv, args := in.prepareCall(g, fr, &x.Call)
		if fv == nil {
			return
		}
		fr.defers = append(fr.defers, &deferRec{fn: fv, args: args, site: in.site(fr, x)})
	case *ssa.Go:
		fv, args := in.prepareCall(g, fr, &x.Call)
		if fv == nil {
			return
		}
		in.schedPoint(g, "go")
		ng := in.newGoroutine(in.site(fr, x))
		in.hbFork(g, ng)
		cl := fv.(*Closure)
		v, done := in.callFn(ng, cl.fn, args, cl.fv, nil)
		_ = v
		if done {
			ng.status = gDone
		}
	case *ssa.MakeInterface:
		in.set(fr, x, Iface{t: x.X.Type(), v: in.get(fr, x.X)})
	case *ssa.ChangeInterface:
		in.set(fr, x, in.get(fr, x.X))
	case *ssa.ChangeType:
		in.set(fr, x, in.get(fr, x.X))
	case *ssa.Convert:
		in.set(fr, x, in.convert(g, in.get(fr, x.X), x.X.Type(), x.Type()))
	case *ssa.MultiConvert:
		in.set(fr, x, in.convert(g, in.get(fr, x.X), x.X.Type(), x.Type()))
	case *ssa.MakeClosure:
		fn := x.Fn.(*ssa.Function)
		fv := make([]Value, len(x.Bindings))
		for i, b := range x.Bindings {
			fv[i] = in.get(fr, b)
		}
		in.set(fr, x, &Closure{fn: fn, fv: fv})
	case *ssa.Phi:
		panic("phi executed directly")
	case *ssa.Extract:
		in.set(fr, x, in.get(fr, x.Tuple).(Tuple)[x.Index])
	case *ssa.Field:
		in.set(fr, x, in.get(fr, x.X).(StructV).f[x.Field])
	case *ssa.FieldAddr:
		p := in.get(fr, x.X).(Ptr)
		if p.c == nil {
			in.goPanic(g, "nil", "nil pointer dereference (field "+x.X.Type().String()+")", nil)
			return
		}
		if x.Field >= len(p.c.sub) {
			// an environment object the executor stubs (xml.Encoder/Decoder, http.Client ...) has no modelled fields
			in.unsupported("field access on a stubbed environment object of type %s", x.X.Type())
		}
		in.set(fr, x, Ptr{p.c.sub[x.Field]})
	case *ssa.Index:
		in.execIndex(g, fr, x)
	case *ssa.IndexAddr:
		in.execIndexAddr(g, fr, x)
	case *ssa.Lookup:
		in.execLookup(g, fr, x)
	case *ssa.Slice:
		in.execSlice(g, fr, x)
	case *ssa.SliceToArrayPointer:
		s := in.get(fr, x.X).(SliceV)
		n := int(x.Type().(*types.Pointer).Elem().Underlying().(*types.Array).Len())
		if s.len < n {
			in.goPanic(g, "bounds", "slice to array pointer: length too short", nil)
			return
		}
		if s.arr == nil {
			in.set(fr, x, Ptr{})
			return
		}
		in.allocs++
		view := &Cell{id: in.allocs, agg: 2, typ: s.arr.typ, sub: s.arr.sub[s.off : s.off+n]}
		in.set(fr, x, Ptr{view})
	case *ssa.MakeSlice:
		et := x.Type().Underlying().(*types.Slice).Elem()
		ln, ok1 := in.concretizeLen(g, in.get(fr, x.Len).(*Term), "makeslice len")
		if !ok1 {
			return
		}
		cp, ok2 := in.concretizeLen(g, in.get(fr, x.Cap).(*Term), "makeslice cap")
		if !ok2 {
			return
		}
		if cp < ln {
			in.goPanic(g, "negativelen", "makeslice: cap out of range", nil)
			return
		}
		in.set(fr, x, SliceV{arr: in.newArray(et, cp), off: 0, len: ln, cap: cp})
	case *ssa.MakeMap:
		mt := x.Type().Underlying().(*types.Map)
		in.allocs++
		m := &MapObj{id: in.allocs, kt: mt.Key(), vt: mt.Elem()}
		m.cell = &Cell{id: in.allocs}
		in.set(fr, x, MapV{m})
	case *ssa.MapUpdate:
		m := in.get(fr, x.Map).(MapV)
		if m.m == nil {
			in.goPanic(g, "nil", "assignment to entry in nil map", nil)
			return
		}
		in.mapSet(m.m, in.get(fr, x.Key), in.get(fr, x.Value))
	case *ssa.MakeChan:
		sz, ok := in.concretizeLen(g, in.get(fr, x.Size).(*Term), "makechan")
		if !ok {
			return
		}
		in.chanCtr++
		in.set(fr, x, &Chan{id: in.chanCtr, cap: sz, et: x.Type().Underlying().(*types.Chan).Elem()})
	case *ssa.Send:
		in.execSend(g, fr, x)
	case *ssa.Select:
		in.execSelect(g, fr, x)
	case *ssa.Range:
		in.execRange(g, fr, x)
	case *ssa.Next:
		in.execNext(g, fr, x)
	case *ssa.TypeAssert:
		in.execTypeAssert(g, fr, x)
	default:
		in.unsupported("instruction %T in %s", ins, fr.fn)
	}
	_ = tt
}

func (in *Interp) describePanic(v Value) string {
	if i, ok := v.(Iface); ok && i.t != nil {
		if s, ok := i.v.(Str); ok {
			if c, ok := s.Concrete(); ok {
				return c
			}
		}
		return i.t.String()
	}
	return ""
}

// concretizeLen turns a length term into a concrete int, forking over feasible
// values up to cfg.MaxAlloc; negative => Go panic; larger => path not decided.
func (in *Interp) concretizeLen(g *Goroutine, t *Term, what string) (int, bool) {
	w := t.sort.W
	if t.IsConst() {
		v := t.I64()
		if v < 0 {
			in.goPanic(g, "negativelen", what+": len out of range", nil)
			return 0, false
		}
		if v > int64(in.cfg.MaxAllocConcrete) {
			panic(pathEnd{kind: "unwind", msg: fmt.Sprintf("%s: concrete size %d above bound", what, v)})
		}
		return int(v), true
	}
	n := in.cfg.MaxAlloc
	conds := make([]*Term, 0, n+3)
	for i := 0; i <= n; i++ {
		conds = append(conds, in.tt.Eq(t, in.tt.Const(w, uint64(i))))
	}
	conds = append(conds, in.tt.Cmp(OpSlt, t, in.tt.Const(w, 0)))
	conds = append(conds, in.tt.Cmp(OpSlt, in.tt.Const(w, uint64(n)), t))
	k := in.choose(conds)
	switch {
	case k <= n:
		return k, true
	case k == n+1:
		in.goPanic(g, "negativelen", what+": len out of range", nil)
		return 0, false
	default:
		panic(pathEnd{kind: "unwind", msg: what + ": symbolic size above MaxAlloc"})
	}
}

// concretizeIndex forks a symbolic index over [0,n); returns -1 after raising a
// bounds panic on the out-of-range side.
func (in *Interp) concretizeIndex(g *Goroutine, t *Term, n int, signed bool, what string) int {
	w := t.sort.W
	if t.IsConst() {
		var v int64
		if signed {
			v = t.I64()
		} else {
			if t.val > uint64(1<<62) {
				v = -1
			} else {
				v = int64(t.val)
			}
		}
		if v < 0 || v >= int64(n) {
			in.goPanic(g, "bounds", fmt.Sprintf("index out of range [%d] with length %d (%s)", v, n, what), nil)
			return -1
		}
		return int(v)
	}
	conds := make([]*Term, 0, n+1)
	for i := 0; i < n; i++ {
		if w < 64 && uint64(i) > mask(w) {
			conds = append(conds, in.tt.False)
			continue
		}
		conds = append(conds, in.tt.Eq(t, in.tt.Const(w, uint64(i))))
	}
	if w < 64 && uint64(n) > mask(w) {
		conds = append(conds, in.tt.False) // the index type cannot reach n
	} else {
		conds = append(conds, in.tt.Not(in.tt.Cmp(OpUlt, t, in.tt.Const(w, uint64(n)))))
	}
	k := in.choose(conds)
	if k == n {
		in.goPanic(g, "bounds", fmt.Sprintf("index out of range with length %d (%s)", n, what), nil)
		return -1
	}
	return k
}

// symStrIndex returns s[idx] for a symbolic index as an ite chain (after the bounds fork).
func (in *Interp) symStrIndex(g *Goroutine, s Str, idx *Term) Value {
	w := idx.sort.W
	oob := in.tt.Not(in.tt.Cmp(OpUlt, idx, in.tt.Const(w, uint64(s.Len()))))
	if in.branch(oob) {
		in.goPanic(g, "bounds", fmt.Sprintf("index out of range with length %d (string)", s.Len()), nil)
		return in.tt.Const(8, 0)
	}
	acc := in.strByte(s, s.Len()-1)
	for i := s.Len() - 2; i >= 0; i-- {
		acc = in.tt.Ite(in.tt.Eq(idx, in.tt.Const(w, uint64(i))), in.strByte(s, i), acc)
	}
	return acc
}

func (in *Interp) execIndex(g *Goroutine, fr *Frame, x *ssa.Index) {
	base := in.get(fr, x.X)
	idx := in.get(fr, x.Index).(*Term)
	_, signed, _ := isInt(x.Index.Type())
	switch b := base.(type) {
	case ArrayV:
		i := in.concretizeIndex(g, idx, len(b.e), signed, "array")
		if i < 0 {
			return
		}
		in.set(fr, x, b.e[i])
	case Str:
		if !idx.IsConst() && b.Len() > 1 {
			in.set(fr, x, in.symStrIndex(g, b, idx))
			return
		}
		i := in.concretizeIndex(g, idx, b.Len(), signed, "string")
		if i < 0 {
			return
		}
		in.set(fr, x, in.strByte(b, i))
	default:
		panic(fmt.Sprintf("Index on %T", base))
	}
}

// onlyLoaded reports whether the address computed by x is used by exactly one load.
func (in *Interp) onlyLoaded(x *ssa.IndexAddr) bool {
	refs := x.Referrers()
	if refs == nil || len(*refs) != 1 {
		return false
	}
	u, ok := (*refs)[0].(*ssa.UnOp)
	return ok && u.Op == token.MUL && u.Block() == x.Block()
}

func (in *Interp) execIndexAddr(g *Goroutine, fr *Frame, x *ssa.IndexAddr) {
	base := in.get(fr, x.X)
	idx := in.get(fr, x.Index).(*Term)
	_, signed, _ := isInt(x.Index.Type())
	switch b := base.(type) {
	case SliceV:
		if !idx.IsConst() && b.len > 1 && in.onlyLoaded(x) {
			w := idx.sort.W
			oob := in.tt.Not(in.tt.Cmp(OpUlt, idx, in.tt.Const(w, uint64(b.len))))
			if in.branch(oob) {
				in.goPanic(g, "bounds", fmt.Sprintf("index out of range with length %d (slice %s)", b.len, x.X.Type()), nil)
				return
			}
			sp := SymPtr{}
			for i := 0; i < b.len; i++ {
				sp.cells = append(sp.cells, in.elem(b.arr, b.off+i))
				sp.conds = append(sp.conds, in.tt.Eq(idx, in.tt.Const(w, uint64(i))))
			}
			in.set(fr, x, sp)
			return
		}
		i := in.concretizeIndex(g, idx, b.len, signed, "slice "+x.X.Type().String())
		if i < 0 {
			return
		}
		in.set(fr, x, Ptr{in.elem(b.arr, b.off+i)})
	case Ptr:
		if b.c == nil {
			in.goPanic(g, "nil", "nil pointer dereference (array index)", nil)
			return
		}
		if n := arrLen(b.c); !idx.IsConst() && n > 1 && n <= 1024 && b.c.big == nil && in.onlyLoaded(x) {
			w := idx.sort.W
			if !(w < 64 && uint64(n) > mask(w)) {
				oob := in.tt.Not(in.tt.Cmp(OpUlt, idx, in.tt.Const(w, uint64(n))))
				if in.branch(oob) {
					in.goPanic(g, "bounds", fmt.Sprintf("index out of range with length %d (array)", n), nil)
					return
				}
			}
			sp := SymPtr{}
			for i := 0; i < n; i++ {
				if w < 64 && uint64(i) > mask(w) {
					break
				}
				sp.cells = append(sp.cells, in.elem(b.c, i))
				sp.conds = append(sp.conds, in.tt.Eq(idx, in.tt.Const(w, uint64(i))))
			}
			in.set(fr, x, sp)
			return
		}
		i := in.concretizeIndex(g, idx, arrLen(b.c), signed, "array")
		if i < 0 {
			return
		}
		in.set(fr, x, Ptr{in.elem(b.c, i)})
	default:
		panic(fmt.Sprintf("IndexAddr on %T", base))
	}
}

func (in *Interp) execSlice(g *Goroutine, fr *Frame, x *ssa.Slice) {
	base := in.get(fr, x.X)
	getI := func(v ssa.Value, def int, maxv int) (int, bool) {
		if v == nil {
			return def, true
		}
		t := in.get(fr, v).(*Term)
		if t.IsConst() {
			return int(t.I64()), true
		}
		// fork over [0,maxv] plus out of range
		w := t.sort.W
		if maxv > 4096 {
			inRange := in.tt.Cmp(OpUle, t, in.tt.Const(w, uint64(maxv)))
			if !in.branch(inRange) {
				return -1, true
			}
			in.unsupported("symbolic slice bound over a range of %d values", maxv)
		}
		conds := make([]*Term, 0, maxv+2)
		for i := 0; i <= maxv; i++ {
			conds = append(conds, in.tt.Eq(t, in.tt.Const(w, uint64(i))))
		}
		conds = append(conds, in.tt.Not(in.tt.Cmp(OpUle, t, in.tt.Const(w, uint64(maxv)))))
		k := in.choose(conds)
		if k > maxv {
			return -1, true
		}
		return k, true
	}
	switch b := base.(type) {
	case Str:
		n := b.Len()
		lo, _ := getI(x.Low, 0, n)
		hi, _ := getI(x.High, n, n)
		if lo < 0 || hi < 0 || hi > n || lo > hi {
			in.goPanic(g, "bounds", fmt.Sprintf("slice bounds out of range [%d:%d] with length %d", lo, hi, n), nil)
			return
		}
		if b.sym == nil {
			in.set(fr, x, Str{s: b.s[lo:hi]})
		} else {
			in.set(fr, x, in.mkStr(b.sym[lo:hi]))
		}
	case SliceV:
		lo, _ := getI(x.Low, 0, b.cap)
		hi, _ := getI(x.High, b.len, b.cap)
		mx, _ := getI(x.Max, b.cap, b.cap)
		if lo < 0 || hi < 0 || mx < 0 || mx > b.cap || hi > mx || lo > hi {
			in.goPanic(g, "bounds", fmt.Sprintf("slice bounds out of range [%d:%d:%d] with capacity %d", lo, hi, mx, b.cap), nil)
			return
		}
		if b.arr == nil {
			in.set(fr, x, SliceV{})
			return
		}
		in.set(fr, x, SliceV{arr: b.arr, off: b.off + lo, len: hi - lo, cap: mx - lo})
	case Ptr: // pointer to array
		if b.c == nil {
			in.goPanic(g, "nil", "slice of nil array pointer", nil)
			return
		}
		n := arrLen(b.c)
		lo, _ := getI(x.Low, 0, n)
		hi, _ := getI(x.High, n, n)
		mx, _ := getI(x.Max, n, n)
		if lo < 0 || hi < 0 || mx < 0 || mx > n || hi > mx || lo > hi {
			in.goPanic(g, "bounds", fmt.Sprintf("slice bounds out of range [%d:%d:%d] with capacity %d", lo, hi, mx, n), nil)
			return
		}
		in.set(fr, x, SliceV{arr: b.c, off: lo, len: hi - lo, cap: mx - lo})
	default:
		panic(fmt.Sprintf("Slice on %T", base))
	}
}

func (in *Interp) execTypeAssert(g *Goroutine, fr *Frame, x *ssa.TypeAssert) {
	v := in.get(fr, x.X).(Iface)
	var ok bool
	var res Value
	if _, isIface := x.AssertedType.Underlying().(*types.Interface); isIface {
		if v.t != nil {
			ok = types.Implements(v.t, x.AssertedType.Underlying().(*types.Interface))
		}
		if ok {
			res = v
		} else {
			res = Iface{}
		}
	} else {
		ok = v.t != nil && types.Identical(v.t, x.AssertedType)
		if ok {
			res = v.v
		} else {
			res = in.zero(x.AssertedType)
		}
	}
	if x.CommaOk {
		in.set(fr, x, Tuple{res, in.tt.Bool(ok)})
		return
	}
	if !ok {
		have := "nil"
		if v.t != nil {
			have = v.t.String()
		}
		in.goPanic(g, "typeassert", fmt.Sprintf("interface conversion: %s is not %s", have, x.AssertedType), nil)
		return
	}
	in.set(fr, x, res)
}

// ---------------------------------------------------------------- calls

// prepareCall resolves the callee of a call (including interface dispatch) and
// evaluates arguments. Returns nil callee after raising a Go panic.
func (in *Interp) prepareCall(g *Goroutine, fr *Frame, c *ssa.CallCommon) (Value, []Value) {
	var args []Value
	var fv Value
	if c.IsInvoke() {
		recv := in.get(fr, c.Value).(Iface)
		if recv.t == nil {
			in.goPanic(g, "nil", "nil pointer dereference (method call on nil interface "+c.Method.Name()+")", nil)
			return nil, nil
		}
		if recv.t == opaqueT {
			return opaqueCall{}, nil
		}
		fn := in.lookupMethod(recv.t, c.Method)
		fv = &Closure{fn: fn}
		args = append(args, recv.v)
	} else {
		fv = in.get(fr, c.Value)
	}
	for _, a := range c.Args {
		args = append(args, in.get(fr, a))
	}
	return fv, args
}

func (in *Interp) lookupMethod(t types.Type, m *types.Func) *ssa.Function {
	ms := in.prog.MethodSets.MethodSet(t)
	sel := ms.Lookup(m.Pkg(), m.Name())
	if sel == nil {
		in.unsupported("method %s not found on %s", m.Name(), t)
	}
	fn := in.prog.MethodValue(sel)
	if fn == nil {
		in.unsupported("abstract method %s on %s", m.Name(), t)
	}
	return fn
}

func (in *Interp) execCall(g *Goroutine, fr *Frame, x ssa.Value, c *ssa.CallCommon, ins ssa.Instruction) {
	p0 := g.panic
	fv, args := in.prepareCall(g, fr, c)
	if fv == nil {
		return
	}
	switch f := fv.(type) {
	case opaqueCall:
		// method on an opaque environment value (only reachable from package initialisers)
		rt := c.Signature().Results()
		var rv Value
		switch rt.Len() {
		case 0:
		case 1:
			if _, ok := rt.At(0).Type().Underlying().(*types.Interface); ok {
				rv = Iface{t: opaqueT}
			} else {
				rv = in.zero(rt.At(0).Type())
			}
		default:
			rv = in.zero(rt)
		}
		if x != nil {
			in.set(fr, x, rv)
		}
	case BuiltinV:
		v := in.builtin(g, f.b.Name(), args, c)
		if g.panic == p0 && x != nil {
			in.set(fr, x, v)
		}
	case *Closure:
		if f == nil {
			in.goPanic(g, "nil", "call of nil function", nil)
			return
		}
		nframes := len(g.frames)
		v, done := in.callFn(g, f.fn, args, f.fv, x)
		if done && len(g.frames) == nframes && g.frames[len(g.frames)-1] == fr && g.panic == p0 {
			in.set(fr, x, v)
		}
	default:
		panic(fmt.Sprintf("call of %T", fv))
	}
}

// ---------------------------------------------------------------- operators

func (in *Interp) unop(g *Goroutine, fr *Frame, x *ssa.UnOp) Value {
	v := in.get(fr, x.X)
	tt := in.tt
	switch x.Op {
	case token.MUL: // load
		if sp, ok := v.(SymPtr); ok {
			var acc Value
			okAll := true
			for i := len(sp.cells) - 1; i >= 0; i-- {
				val := in.load(sp.cells[i])
				if acc == nil {
					acc = val
					continue
				}
				acc, okAll = in.iteVal(sp.conds[i], val, acc)
				if !okAll {
					break
				}
			}
			if okAll {
				return acc
			}
			k := in.choose(sp.conds)
			return in.load(sp.cells[k])
		}
		p := v.(Ptr)
		if p.c == nil {
			in.goPanic(g, "nil", "nil pointer dereference (load "+x.X.Type().String()+")", nil)
			return nil
		}
		return in.load(p.c)
	case token.NOT:
		return tt.Not(v.(*Term))
	case token.SUB:
		t := v.(*Term)
		if t.sort.K == KFP {
			return tt.FNeg(t)
		}
		return tt.Neg(t)
	case token.XOR:
		return tt.BNot(v.(*Term))
	case token.ARROW:
		return in.execRecv(g, fr, v.(*Chan), x.CommaOk, x.Type())
	}
	in.unsupported("unop %s", x.Op)
	return nil
}

func (in *Interp) binop(g *Goroutine, op token.Token, a, b Value, ta, tb types.Type) Value {
	tt := in.tt
	switch op {
	case token.EQL:
		return in.eqVal(a, b)
	case token.NEQ:
		return tt.Not(in.eqVal(a, b))
	}
	switch x := a.(type) {
	case Str:
		y := b.(Str)
		switch op {
		case token.ADD:
			return in.concat(x, y)
		case token.LSS:
			return in.strLess(x, y)
		case token.GTR:
			return in.strLess(y, x)
		case token.LEQ:
			return tt.Not(in.strLess(y, x))
		case token.GEQ:
			return tt.Not(in.strLess(x, y))
		}
	case *Term:
		y := b.(*Term)
		if x.sort.K == KFP {
			switch op {
			case token.ADD:
				return tt.FBin(OpFAdd, x, y)
			case token.SUB:
				return tt.FBin(OpFSub, x, y)
			case token.MUL:
				return tt.FBin(OpFMul, x, y)
			case token.QUO:
				return tt.FBin(OpFDiv, x, y)
			case token.LSS:
				return tt.FCmp(OpFLt, x, y)
			case token.LEQ:
				return tt.FCmp(OpFLe, x, y)
			case token.GTR:
				return tt.FCmp(OpFLt, y, x)
			case token.GEQ:
				return tt.FCmp(OpFLe, y, x)
			}
			in.unsupported("float binop %s", op)
		}
		if x.sort.K == KBool {
			switch op {
			case token.AND, token.LAND:
				return tt.And(x, y)
			case token.OR, token.LOR:
				return tt.Or(x, y)
			}
			in.unsupported("bool binop %s", op)
		}
		w, signed, _ := isInt(ta)
		_ = w
		switch op {
		case token.ADD:
			return tt.Bin(OpAdd, x, y)
		case token.SUB:
			return tt.Bin(OpSub, x, y)
		case token.MUL:
			return tt.Bin(OpMul, x, y)
		case token.QUO, token.REM:
			// division by zero check
			z := tt.Eq(y, tt.Const(y.sort.W, 0))
			if in.branch(z) {
				in.goPanic(g, "divide", "integer divide by zero", nil)
				return nil
			}
			if op == token.QUO {
				if signed {
					return tt.Bin(OpSDiv, x, y)
				}
				return tt.Bin(OpUDiv, x, y)
			}
			if signed {
				return tt.Bin(OpSRem, x, y)
			}
			return tt.Bin(OpURem, x, y)
		case token.AND:
			return tt.Bin(OpBAnd, x, y)
		case token.OR:
			return tt.Bin(OpBOr, x, y)
		case token.XOR:
			return tt.Bin(OpBXor, x, y)
		case token.AND_NOT:
			return tt.Bin(OpBAnd, x, tt.BNot(y))
		case token.SHL, token.SHR:
			_, ysigned, _ := isInt(tb)
			if ysigned {
				neg := tt.Cmp(OpSlt, y, tt.Const(y.sort.W, 0))
				if in.branch(neg) {
					in.goPanic(g, "other", "negative shift amount", nil)
					return nil
				}
			}
			cnt := in.shiftCount(y, x.sort.W)
			if op == token.SHL {
				return tt.Bin(OpShl, x, cnt)
			}
			if signed {
				return tt.Bin(OpAShr, x, cnt)
			}
			return tt.Bin(OpLShr, x, cnt)
		case token.LSS:
			if signed {
				return tt.Cmp(OpSlt, x, y)
			}
			return tt.Cmp(OpUlt, x, y)
		case token.LEQ:
			if signed {
				return tt.Cmp(OpSle, x, y)
			}
			return tt.Cmp(OpUle, x, y)
		case token.GTR:
			if signed {
				return tt.Cmp(OpSlt, y, x)
			}
			return tt.Cmp(OpUlt, y, x)
		case token.GEQ:
			if signed {
				return tt.Cmp(OpSle, y, x)
			}
			return tt.Cmp(OpUle, y, x)
		}
	}
	in.unsupported("binop %s on %T", op, a)
	return nil
}

// shiftCount converts a (non-negative) shift count of any width to width w,
// saturating at w.
func (in *Interp) shiftCount(y *Term, w int) *Term {
	tt := in.tt
	yw := y.sort.W
	if yw == w {
		return y
	}
	if yw < w {
		return tt.Zext(y, w)
	}
	big := tt.Not(tt.Cmp(OpUlt, y, tt.Const(yw, uint64(w))))
	return tt.Ite(big, tt.Const(w, uint64(w)), tt.Extract(y, w-1, 0))
}

func (in *Interp) convert(g *Goroutine, v Value, from, to types.Type) Value {
	tt := in.tt
	fu, tu := from.Underlying(), to.Underlying()
	if fw, fsigned, ok := isInt(fu); ok {
		t := v.(*Term)
		if tw, _, ok := isInt(tu); ok {
			if tw <= fw {
				return tt.Extract(t, tw-1, 0)
			}
			if fsigned {
				return tt.Sext(t, tw)
			}
			return tt.Zext(t, tw)
		}
		if tw, ok := isFloat(tu); ok {
			return tt.IntToFP(t, fsigned, tw)
		}
		if isString(tu) {
			if t.IsConst() {
				return Str{s: string(rune(t.I64()))}
			}
			in.unsupported("symbolic rune to string conversion")
		}
		if b, ok := tu.(*types.Basic); ok && b.Kind() == types.UnsafePointer {
			in.unsupported("uintptr to unsafe.Pointer")
		}
	}
	if _, ok := isFloat(fu); ok {
		t := v.(*Term)
		if tw, tsigned, ok := isInt(tu); ok {
			return tt.FPToInt(t, tsigned, tw)
		}
		if tw, ok := isFloat(tu); ok {
			return tt.FPToFP(t, tw)
		}
	}
	if isString(fu) {
		s := v.(Str)
		if sl, ok := tu.(*types.Slice); ok {
			if eb, ok := sl.Elem().Underlying().(*types.Basic); ok && eb.Kind() == types.Uint8 {
				arr := in.newArray(sl.Elem(), s.Len())
				for i := 0; i < s.Len(); i++ {
					in.elem(arr, i).v = in.strByte(s, i)
				}
				return SliceV{arr: arr, len: s.Len(), cap: s.Len()}
			}
			if eb, ok := sl.Elem().Underlying().(*types.Basic); ok && eb.Kind() == types.Int32 {
				cs, ok := s.Concrete()
				if !ok {
					in.unsupported("symbolic string to []rune")
				}
				rs := []rune(cs)
				arr := in.newArray(sl.Elem(), len(rs))
				for i, r := range rs {
					in.elem(arr, i).v = tt.Const(32, uint64(r))
				}
				return SliceV{arr: arr, len: len(rs), cap: len(rs)}
			}
		}
		if isString(tu) {
			return v
		}
	}
	if sl, ok := fu.(*types.Slice); ok && isString(tu) {
		s := v.(SliceV)
		if eb, ok := sl.Elem().Underlying().(*types.Basic); ok && eb.Kind() == types.Uint8 {
			b := make([]*Term, s.len)
			for i := 0; i < s.len; i++ {
				b[i] = in.load(in.elem(s.arr, s.off+i)).(*Term)
			}
			return in.mkStr(b)
		}
		if eb, ok := sl.Elem().Underlying().(*types.Basic); ok && eb.Kind() == types.Int32 {
			rs := make([]rune, s.len)
			for i := 0; i < s.len; i++ {
				t := in.load(in.elem(s.arr, s.off+i)).(*Term)
				if !t.IsConst() {
					in.unsupported("symbolic []rune to string")
				}
				rs[i] = rune(t.I64())
			}
			return Str{s: string(rs)}
		}
	}
	// pointer <-> unsafe.Pointer and the like
	if _, ok := fu.(*types.Pointer); ok {
		if b, ok := tu.(*types.Basic); ok && b.Kind() == types.UnsafePointer {
			return v
		}
	}
	if b, ok := fu.(*types.Basic); ok && b.Kind() == types.UnsafePointer {
		if _, ok := tu.(*types.Pointer); ok {
			in.unsupported("unsafe.Pointer to %s", to)
		}
	}
	if types.Identical(fu, tu) {
		return v
	}
	in.unsupported("conversion %s -> %s", from, to)
	return nil
}

// ---------------------------------------------------------------- maps

func (in *Interp) mapFind(m *MapObj, k Value) int {
	// keys are compared structurally; a symbolic comparison forks
	for i, kk := range m.keys {
		c := in.eqVal(kk, k)
		if in.branch(c) {
			return i
		}
	}
	return -1
}

func (in *Interp) mapSet(m *MapObj, k, v Value) {
	in.raceWrite(m.cell)
	i := in.mapFind(m, k)
	if i >= 0 {
		m.vals[i] = v
		return
	}
	m.keys = append(m.keys, k)
	m.vals = append(m.vals, v)
}

func (in *Interp) mapDelete(m *MapObj, k Value) {
	in.raceWrite(m.cell)
	i := in.mapFind(m, k)
	if i >= 0 {
		m.keys = append(append([]Value{}, m.keys[:i]...), m.keys[i+1:]...)
		m.vals = append(append([]Value{}, m.vals[:i]...), m.vals[i+1:]...)
	}
}

func (in *Interp) execLookup(g *Goroutine, fr *Frame, x *ssa.Lookup) {
	base := in.get(fr, x.X)
	switch b := base.(type) {
	case MapV:
		vt := x.X.Type().Underlying().(*types.Map).Elem()
		var val Value
		found := false
		if b.m != nil {
			in.raceRead(b.m.cell)
			i := in.mapFind(b.m, in.get(fr, x.Index))
			if i >= 0 {
				val = b.m.vals[i]
				found = true
			}
		}
		if !found {
			val = in.zero(vt)
		}
		if x.CommaOk {
			in.set(fr, x, Tuple{val, in.tt.Bool(found)})
		} else {
			in.set(fr, x, val)
		}
	case Str:
		idx := in.get(fr, x.Index).(*Term)
		_, signed, _ := isInt(x.Index.Type())
		i := in.concretizeIndex(g, idx, b.Len(), signed, "string")
		if i < 0 {
			return
		}
		in.set(fr, x, in.strByte(b, i))
	default:
		panic(fmt.Sprintf("Lookup on %T", base))
	}
}

func (in *Interp) execRange(g *Goroutine, fr *Frame, x *ssa.Range) {
	base := in.get(fr, x.X)
	switch b := base.(type) {
	case MapV:
		it := &mapIter{}
		if b.m != nil {
			in.raceRead(b.m.cell)
			it.m = b.m
			it.keys = append([]Value{}, b.m.keys...)
			it.vals = append([]Value{}, b.m.vals...)
			it.anyOrder = in.cfg.MapOrder == "any"
			if !it.anyOrder {
				in.sortKeys(it)
			}
		}
		in.set(fr, x, it)
	case Str:
		s := b
		in.set(fr, x, &mapIter{str: &s})
	default:
		panic(fmt.Sprintf("Range on %T", base))
	}
}

// sortKeys gives map iteration a canonical deterministic order when all keys are concrete
// scalars or strings (so the engine does not depend on insertion order by accident).
func (in *Interp) sortKeys(it *mapIter) {
	type kv struct {
		k, v Value
		s    string
	}
	items := make([]kv, len(it.keys))
	for i := range it.keys {
		var s string
		switch k := it.keys[i].(type) {
		case *Term:
			if !k.IsConst() {
				return
			}
			s = fmt.Sprintf("%020d", k.val)
		case Str:
			c, ok := k.Concrete()
			if !ok {
				return
			}
			s = c
		default:
			return
		}
		items[i] = kv{it.keys[i], it.vals[i], s}
	}
	sort.SliceStable(items, func(i, j int) bool { return items[i].s < items[j].s })
	for i := range items {
		it.keys[i], it.vals[i] = items[i].k, items[i].v
	}
}

func (in *Interp) execNext(g *Goroutine, fr *Frame, x *ssa.Next) {
	it := in.get(fr, x.Iter).(*mapIter)
	tt := in.tt
	if x.IsString {
		s := *it.str
		if it.spos >= s.Len() {
			in.set(fr, x, Tuple{tt.False, tt.Const(64, 0), tt.Const(32, 0)})
			return
		}
		// decode one rune; only ASCII-or-concrete supported
		cs, ok := s.Concrete()
		if ok {
			r, sz := decodeRune(cs[it.spos:])
			in.set(fr, x, Tuple{tt.True, tt.Const(64, uint64(it.spos)), tt.Const(32, uint64(r))})
			it.spos += sz
			return
		}
		b := in.strByte(s, it.spos)
		ascii := tt.Cmp(OpUlt, b, tt.Const(8, 0x80))
		if !in.branch(ascii) {
			in.unsupported("range over symbolic non-ASCII string")
		}
		in.set(fr, x, Tuple{tt.True, tt.Const(64, uint64(it.spos)), tt.Zext(b, 32)})
		it.spos++
		return
	}
	for {
		if it.pos >= len(it.keys) {
			kt := x.Type().(*types.Tuple).At(1).Type()
			vt := x.Type().(*types.Tuple).At(2).Type()
			var zk, zv Value
			if !isInvalid(kt) {
				zk = in.zero(kt)
			}
			if !isInvalid(vt) {
				zv = in.zero(vt)
			}
			in.set(fr, x, Tuple{tt.False, zk, zv})
			return
		}
		if it.anyOrder && len(it.keys)-it.pos > 1 {
			n := len(it.keys) - it.pos
			if n > 5 {
				panic(pathEnd{kind: "unwind", msg: "map with more than 5 entries ranged in any-order mode"})
			}
			in.freeChoices++
			k := in.decideFree(n)
			j := it.pos + k
			it.keys[it.pos], it.keys[j] = it.keys[j], it.keys[it.pos]
			it.vals[it.pos], it.vals[j] = it.vals[j], it.vals[it.pos]
		}
		k, v := it.keys[it.pos], it.vals[it.pos]
		it.pos++
		// skip entries deleted during iteration; pick up current value
		cur := -1
		for i, kk := range it.m.keys {
			if c := in.eqVal(kk, k); c.IsConst() && c.BoolVal() {
				cur = i
				break
			}
		}
		if cur < 0 {
			continue
		}
		v = it.m.vals[cur]
		in.set(fr, x, Tuple{tt.True, k, v})
		return
	}
}

func isInvalid(t types.Type) bool {
	b, ok := t.(*types.Basic)
	return ok && b.Kind() == types.Invalid
}

func decodeRune(s string) (rune, int) {
	for i, r := range s {
		_ = i
		n := len(string(r))
		if r == 0xFFFD {
			// invalid encoding consumes one byte
			if len(s) >= 3 && s[:3] == "�" {
				return r, 3
			}
			return r, 1
		}
		return r, n
	}
	return 0, 0
}

// ---------------------------------------------------------------- builtins

func (in *Interp) builtin(g *Goroutine, name string, args []Value, c *ssa.CallCommon) Value {
	tt := in.tt
	switch name {
	case "len":
		switch x := args[0].(type) {
		case Str:
			return tt.Const(64, uint64(x.Len()))
		case SliceV:
			return tt.Const(64, uint64(x.len))
		case MapV:
			if x.m == nil {
				return tt.Const(64, 0)
			}
			in.raceRead(x.m.cell)
			return tt.Const(64, uint64(len(x.m.keys)))
		case *Chan:
			if x == nil {
				return tt.Const(64, 0)
			}
			return tt.Const(64, uint64(len(x.buf)))
		case Ptr:
			return tt.Const(64, uint64(arrLen(x.c)))
		case ArrayV:
			return tt.Const(64, uint64(len(x.e)))
		}
	case "cap":
		switch x := args[0].(type) {
		case SliceV:
			return tt.Const(64, uint64(x.cap))
		case *Chan:
			if x == nil {
				return tt.Const(64, 0)
			}
			return tt.Const(64, uint64(x.cap))
		case Ptr:
			return tt.Const(64, uint64(len(x.c.sub)))
		case ArrayV:
			return tt.Const(64, uint64(len(x.e)))
		}
	case "append":
		s := args[0].(SliceV)
		var elems []Value
		var et types.Type
		if c != nil {
			et = c.Args[0].Type().Underlying().(*types.Slice).Elem()
		} else if s.arr != nil {
			et = s.arr.typ
		}
		switch y := args[1].(type) {
		case SliceV:
			for i := 0; i < y.len; i++ {
				elems = append(elems, in.load(in.elem(y.arr, y.off+i)))
			}
		case Str:
			for i := 0; i < y.Len(); i++ {
				elems = append(elems, in.strByte(y, i))
			}
		}
		if len(elems) == 0 {
			return s
		}
		if et == nil {
			in.unsupported("append with unknown element type")
		}
		return in.appendVals(s, elems, et)
	case "copy":
		d := args[0].(SliceV)
		n := d.len
		switch y := args[1].(type) {
		case SliceV:
			if y.len < n {
				n = y.len
			}
			tmp := make([]Value, n)
			for i := 0; i < n; i++ {
				tmp[i] = in.load(in.elem(y.arr, y.off+i))
			}
			for i := 0; i < n; i++ {
				in.store(in.elem(d.arr, d.off+i), tmp[i])
			}
		case Str:
			if y.Len() < n {
				n = y.Len()
			}
			for i := 0; i < n; i++ {
				in.store(in.elem(d.arr, d.off+i), in.strByte(y, i))
			}
		}
		return tt.Const(64, uint64(n))
	case "delete":
		m := args[0].(MapV)
		if m.m != nil {
			in.mapDelete(m.m, args[1])
		}
		return nil
	case "close":
		in.chanClose(g, args[0].(*Chan))
		return nil
	case "recover":
		return in.doRecover(g)
	case "print", "println":
		return nil
	case "min", "max":
		r := args[0]
		for _, a := range args[1:] {
			x, y := r.(*Term), a.(*Term)
			var lt *Term
			if x.sort.K == KFP {
				lt = tt.FCmp(OpFLt, y, x)
			} else {
				_, signed, _ := isInt(c.Args[0].Type())
				if signed {
					lt = tt.Cmp(OpSlt, y, x)
				} else {
					lt = tt.Cmp(OpUlt, y, x)
				}
			}
			if name == "max" {
				lt = tt.Not(lt)
				lt = tt.And(lt, tt.Not(tt.Eq(x, y)))
			}
			r = tt.Ite(lt, y, x)
		}
		return r
	case "clear":
		switch x := args[0].(type) {
		case MapV:
			if x.m != nil {
				x.m.keys, x.m.vals = nil, nil
			}
		case SliceV:
			for i := 0; i < x.len; i++ {
				in.store(in.elem(x.arr, x.off+i), in.zero(x.arr.typ))
			}
		}
		return nil
	case "ssa:wrapnilchk":
		p := args[0].(Ptr)
		if p.c == nil {
			in.goPanic(g, "nil", "value method called using nil pointer", nil)
			return nil
		}
		return p
	}
	in.unsupported("builtin %s on %T", name, args[0])
	return nil
}

func (in *Interp) appendVals(s SliceV, elems []Value, et types.Type) SliceV {
	need := s.len + len(elems)
	if s.arr != nil && need <= s.cap {
		for i, e := range elems {
			in.store(in.elem(s.arr, s.off+s.len+i), e)
		}
		return SliceV{arr: s.arr, off: s.off, len: need, cap: s.cap}
	}
	nc := s.cap * 2
	if nc < need {
		nc = need
	}
	arr := in.newArray(et, nc)
	for i := 0; i < s.len; i++ {
		in.store(in.elem(arr, i), in.load(in.elem(s.arr, s.off+i)))
	}
	for i, e := range elems {
		in.store(in.elem(arr, s.len+i), e)
	}
	return SliceV{arr: arr, off: 0, len: need, cap: nc}
}

func (in *Interp) doRecover(g *Goroutine) Value {
	// valid when called from a deferred function frame while panicking
	if g.panic == nil || g.panic.recovered {
		return Iface{}
	}
	if len(g.frames) < 1 {
		return Iface{}
	}
	fr := g.frames[len(g.frames)-1]
	if fr.deferOf == nil || fr.deferOf.deferMode != 2 {
		return Iface{}
	}
	g.panic.recovered = true
	v := g.panic.val
	if iv, ok := v.(Iface); ok {
		return iv
	}
	return Iface{t: types.Typ[types.String], v: v}
}
