package main

// sync, sync/atomic intrinsics (engine-level blocking primitives with
// happens-before edges).

import "go/types"

func (in *Interp) syncAcquire(g *Goroutine, c *Cell) {
	if c.syncClk != nil {
		g.clk = joinClk(g.clk, c.syncClk)
	}
}

func (in *Interp) syncRelease(g *Goroutine, c *Cell) {
	c.syncClk = joinClk(c.syncClk, g.clk)
	in.tick(g)
}

func (in *Interp) wakeWaiters(pred func(*Goroutine) bool) {
	for _, o := range in.gs {
		if o.status == gBlocked && pred(o) {
			in.wakeG(o, nil)
		}
	}
}

func init() {
	lock := func(in *Interp, c *callCtx) Value {
		p := c.args[0].(Ptr)
		if p.c == nil {
			in.goPanic(c.g, "nil", "nil mutex", nil)
			return nil
		}
		in.schedPoint(c.g, "lock")
		st := p.c.sub[0]
		for st.agg != 0 { // RWMutex: first field is w Mutex
			st = st.sub[0]
		}
		if t, ok := st.v.(*Term); ok && t.IsConst() && t.val == 0 {
			st.v = in.tt.Const(32, 1)
			in.syncAcquire(c.g, st)
			return nil
		}
		c.g.waitMu = st
		in.block(c.g, nil)
		return nil
	}
	unlock := func(in *Interp, c *callCtx) Value {
		p := c.args[0].(Ptr)
		st := p.c.sub[0]
		for st.agg != 0 {
			st = st.sub[0]
		}
		if t, ok := st.v.(*Term); ok && t.IsConst() && t.val == 0 {
			in.goPanic(c.g, "other", "sync: unlock of unlocked mutex", nil)
			return nil
		}
		st.v = in.tt.Const(32, 0)
		in.syncRelease(c.g, st)
		in.wakeWaiters(func(o *Goroutine) bool { return o.waitMu == st })
		return nil
	}
	trylock := func(in *Interp, c *callCtx) Value {
		p := c.args[0].(Ptr)
		st := p.c.sub[0]
		for st.agg != 0 {
			st = st.sub[0]
		}
		if t, ok := st.v.(*Term); ok && t.IsConst() && t.val == 0 {
			st.v = in.tt.Const(32, 1)
			in.syncAcquire(c.g, st)
			return in.tt.True
		}
		return in.tt.False
	}
	intrinsics["(*sync.Mutex).Lock"] = lock
	intrinsics["(*sync.Mutex).Unlock"] = unlock
	intrinsics["(*sync.Mutex).TryLock"] = trylock
	intrinsics["(*sync.RWMutex).Lock"] = lock
	intrinsics["(*sync.RWMutex).Unlock"] = unlock
	intrinsics["(*sync.RWMutex).RLock"] = lock // stub: readers exclude each other (stricter than the real lock)
	intrinsics["(*sync.RWMutex).RUnlock"] = unlock

	wgCell := func(p Ptr) *Cell {
		// WaitGroup{noCopy, state atomic.Uint64{_, _, v uint64}, sema}
		st := p.c.sub[1]
		for st.agg != 0 {
			st = st.sub[len(st.sub)-1]
		}
		return st
	}
	intrinsics["(*sync.WaitGroup).Add"] = func(in *Interp, c *callCtx) Value {
		p := c.args[0].(Ptr)
		st := wgCell(p)
		in.schedPoint(c.g, "wg.add")
		d := c.args[1].(*Term)
		if !d.IsConst() {
			in.unsupported("WaitGroup.Add with symbolic delta")
		}
		cur := st.v.(*Term).I64() + d.I64()
		if cur < 0 {
			in.goPanic(c.g, "other", "sync: negative WaitGroup counter", nil)
			return nil
		}
		st.v = in.tt.Const(64, uint64(cur))
		in.syncRelease(c.g, st)
		if cur == 0 {
			in.wakeWaiters(func(o *Goroutine) bool { return o.waitWG == st })
		}
		return nil
	}
	intrinsics["(*sync.WaitGroup).Done"] = func(in *Interp, c *callCtx) Value {
		c2 := *c
		c2.args = []Value{c.args[0], in.tt.Const(64, ^uint64(0))}
		return intrinsics["(*sync.WaitGroup).Add"](in, &c2)
	}
	intrinsics["(*sync.WaitGroup).Wait"] = func(in *Interp, c *callCtx) Value {
		p := c.args[0].(Ptr)
		st := wgCell(p)
		in.schedPoint(c.g, "wg.wait")
		if st.v.(*Term).I64() == 0 {
			in.syncAcquire(c.g, st)
			return nil
		}
		c.g.waitWG = st
		in.block(c.g, nil)
		return nil
	}

	// ---- sync/atomic functions
	load := func(in *Interp, c *callCtx) Value {
		p := c.args[0].(Ptr)
		if p.c == nil {
			in.goPanic(c.g, "nil", "atomic load of nil", nil)
			return nil
		}
		in.schedPoint(c.g, "atomic")
		in.syncAcquire(c.g, p.c)
		save := in.raceOn
		in.raceOn = false
		v := in.load(p.c)
		in.raceOn = save
		return v
	}
	store := func(in *Interp, c *callCtx) Value {
		p := c.args[0].(Ptr)
		if p.c == nil {
			in.goPanic(c.g, "nil", "atomic store to nil", nil)
			return nil
		}
		in.schedPoint(c.g, "atomic")
		save := in.raceOn
		in.raceOn = false
		in.store(p.c, c.args[1])
		in.raceOn = save
		in.syncRelease(c.g, p.c)
		return nil
	}
	add := func(in *Interp, c *callCtx) Value {
		p := c.args[0].(Ptr)
		in.schedPoint(c.g, "atomic")
		in.syncAcquire(c.g, p.c)
		nv := in.tt.Bin(OpAdd, p.c.v.(*Term), c.args[1].(*Term))
		p.c.v = nv
		in.syncRelease(c.g, p.c)
		return nv
	}
	swap := func(in *Interp, c *callCtx) Value {
		p := c.args[0].(Ptr)
		in.schedPoint(c.g, "atomic")
		in.syncAcquire(c.g, p.c)
		old := p.c.v
		p.c.v = c.args[1]
		in.syncRelease(c.g, p.c)
		return old
	}
	cas := func(in *Interp, c *callCtx) Value {
		p := c.args[0].(Ptr)
		in.schedPoint(c.g, "atomic")
		in.syncAcquire(c.g, p.c)
		eq := in.eqVal(p.c.v, c.args[1])
		if in.branch(eq) {
			p.c.v = c.args[2]
			in.syncRelease(c.g, p.c)
			return in.tt.True
		}
		return in.tt.False
	}
	for _, t := range []string{"Int32", "Int64", "Uint32", "Uint64", "Uintptr", "Pointer"} {
		intrinsics["sync/atomic.Load"+t] = load
		intrinsics["sync/atomic.Store"+t] = store
		intrinsics["sync/atomic.Swap"+t] = swap
		intrinsics["sync/atomic.CompareAndSwap"+t] = cas
		if t != "Pointer" {
			intrinsics["sync/atomic.Add"+t] = add
		}
	}
	// atomic.Value{v any}
	intrinsics["(*sync/atomic.Value).Load"] = func(in *Interp, c *callCtx) Value {
		p := c.args[0].(Ptr)
		in.schedPoint(c.g, "atomic")
		in.syncAcquire(c.g, p.c.sub[0])
		return p.c.sub[0].v
	}
	intrinsics["(*sync/atomic.Value).Store"] = func(in *Interp, c *callCtx) Value {
		p := c.args[0].(Ptr)
		in.schedPoint(c.g, "atomic")
		if isNilValue(c.args[1]) {
			in.goPanic(c.g, "other", "sync/atomic: store of nil value into Value", nil)
			return nil
		}
		p.c.sub[0].v = c.args[1]
		in.syncRelease(c.g, p.c.sub[0])
		return nil
	}
	intrinsics["(*sync/atomic.Value).CompareAndSwap"] = func(in *Interp, c *callCtx) Value {
		p := c.args[0].(Ptr)
		in.schedPoint(c.g, "atomic")
		in.syncAcquire(c.g, p.c.sub[0])
		eq := in.eqVal(p.c.sub[0].v, c.args[1])
		if in.branch(eq) {
			p.c.sub[0].v = c.args[2]
			in.syncRelease(c.g, p.c.sub[0])
			return in.tt.True
		}
		return in.tt.False
	}
	_ = types.Typ
}
