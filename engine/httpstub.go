package main

// net/http and encoding/xml environment stubs. A request is a real *http.Request
// cell whose URL text is kept beside it as a rope; Client.Do calls the harness
// RoundTripper installed in Client.Transport (natively the real net/http does the
// same); an XML body made with vXMLBody carries its model value, which Decode copies
// into the target (natively: real xml.Marshal text decoded by the real decoder).

import (
	"go/types"
)

func (in *Interp) sideKey(prefix string, c *Cell) string {
	return prefix + ":" + itoa(c.id)
}

func itoa(i int) string {
	if i == 0 {
		return "0"
	}
	s := ""
	for i > 0 {
		s = string(rune('0'+i%10)) + s
		i /= 10
	}
	return s
}

func (in *Interp) newRequest(c *callCtx, method Str, url Str) Value {
	hp := in.prog.ImportedPackage("net/http")
	if hp == nil {
		in.unsupported("net/http not loaded")
	}
	t := hp.Type("Request").Type()
	cell := in.newCell(t)
	st := t.Underlying().(*types.Struct)
	for i := 0; i < st.NumFields(); i++ {
		if st.Field(i).Name() == "Method" {
			in.store(cell.sub[i], method)
		}
	}
	in.objs[in.sideKey("requrl", cell)] = url
	in.stubsHit["net/http.NewRequest (records method and URL)"]++
	return Tuple{Ptr{cell}, Iface{}}
}

func init() {
	intrinsics["net/http.NewRequest"] = func(in *Interp, c *callCtx) Value {
		return in.newRequest(c, c.args[0].(Str), c.args[1].(Str))
	}
	intrinsics["net/http.NewRequestWithContext"] = func(in *Interp, c *callCtx) Value {
		return in.newRequest(c, c.args[1].(Str), c.args[2].(Str))
	}
	intrinsics["(*net/http.Request).WithContext"] = func(in *Interp, c *callCtx) Value { return c.args[0] }
	intrinsics["(*net/http.Client).Do"] = func(in *Interp, c *callCtx) Value {
		cl := c.args[0].(Ptr)
		if cl.c == nil {
			in.goPanic(c.g, "nil", "nil http.Client", nil)
			return nil
		}
		st := cl.c.typ.Underlying().(*types.Struct)
		var tr Iface
		for i := 0; i < st.NumFields(); i++ {
			if st.Field(i).Name() == "Transport" {
				tr = in.load(cl.c.sub[i]).(Iface)
			}
		}
		if tr.t == nil {
			in.unsupported("http.Client.Do without a harness Transport (real network)")
		}
		m := in.findMethod(tr.t, "RoundTrip")
		in.stubsHit["(*net/http.Client).Do -> Transport.RoundTrip"]++
		in.pushFrame(c.g, m, []Value{tr.v, c.args[1]}, nil, c.retTo)
		panic(framePushed{})
	}
	rtIntrinsics["vReqURL"] = func(in *Interp, c *callCtx) Value {
		p := c.args[0].(Ptr)
		if u, ok := in.objs[in.sideKey("requrl", p.c)]; ok {
			return u
		}
		in.unsupported("vReqURL of a request not made by http.NewRequest")
		return nil
	}
	rtIntrinsics["vXMLBody"] = func(in *Interp, c *callCtx) Value {
		tn := c.fn.Pkg.Type("vDocReader")
		if tn == nil {
			in.unsupported("vDocReader type missing")
		}
		cell := in.newCell(tn.Type())
		in.store(cell.sub[0], c.args[0])
		return Iface{t: types.NewPointer(tn.Type()), v: Ptr{cell}}
	}
	intrinsics["encoding/xml.NewDecoder"] = func(in *Interp, c *callCtx) Value {
		xp := in.prog.ImportedPackage("encoding/xml")
		t := xp.Type("Decoder").Type()
		in.allocs++
		cell := &Cell{id: in.allocs, typ: t} // opaque: never inspected
		in.objs[in.sideKey("xmlreader", cell)] = c.args[0]
		return Ptr{cell}
	}
	intrinsics["(*encoding/xml.Decoder).Decode"] = func(in *Interp, c *callCtx) Value {
		d := c.args[0].(Ptr)
		r, _ := in.objs[in.sideKey("xmlreader", d.c)].(Iface)
		target := c.args[1].(Iface)
		if ds := in.decState(d.c); ds != nil {
			// token stream: Decode = skip to the first start element, then DecodeElement
			return in.xmlDecodeDocument(c.g, d, ds, target)
		}
		if r.t == nil {
			in.unsupported("xml.Decoder over an unknown reader")
		}
		pt, ok := r.t.(*types.Pointer)
		if !ok {
			in.unsupported("xml.Decoder.Decode over %s (only harness vXMLBody documents are modelled)", r.t)
		}
		named, ok := pt.Elem().(*types.Named)
		if !ok || named.Obj().Name() != "vDocReader" {
			in.unsupported("xml.Decoder.Decode over %s (only harness vXMLBody documents are modelled)", r.t)
		}
		model := in.load(r.v.(Ptr).c.sub[0]).(Iface)
		in.stubsHit["(*encoding/xml.Decoder).Decode: copies the harness document model into the target"]++
		if model.t == nil {
			return in.mkError("XML syntax error (harness: malformed document)")
		}
		// target is *T or **T; model is *T
		tp, ok := target.t.Underlying().(*types.Pointer)
		if !ok {
			return in.mkError("xml: non-pointer passed to Unmarshal")
		}
		cp := in.deepCopy(model.v, map[*Cell]*Cell{}, map[*MapObj]*MapObj{})
		tc := target.v.(Ptr).c
		if types.Identical(tp.Elem(), model.t) { // **T <- *T
			in.store(tc, cp)
			return Iface{}
		}
		if mp, ok := model.t.Underlying().(*types.Pointer); ok && types.Identical(tp.Elem(), mp.Elem()) { // *T <- *T
			src := cp.(Ptr)
			if src.c == nil {
				return Iface{}
			}
			in.store(tc, in.load(src.c))
			return Iface{}
		}
		return in.mkError("xml: document element does not match the target type")
	}
}
