package main

// SMT term layer: hash-consed terms over Bool / BitVec(<=64) / Float32/64 with
// native constant folding. Every Go scalar in the symbolic executor is a *Term.

import (
	"fmt"
	"math"
	"math/bits"
	"strings"
)

type Kind uint8

const (
	KBool Kind = iota
	KBV
	KFP
)

type Sort struct {
	K Kind
	W int // bits (BV: 1..64, FP: 32 or 64)
}

var (
	SBool = Sort{KBool, 1}
	SF64  = Sort{KFP, 64}
	SF32  = Sort{KFP, 32}
)

func BV(w int) Sort { return Sort{KBV, w} }

func (s Sort) String() string {
	switch s.K {
	case KBool:
		return "Bool"
	case KBV:
		return fmt.Sprintf("(_ BitVec %d)", s.W)
	default:
		if s.W == 32 {
			return "(_ FloatingPoint 8 24)"
		}
		return "(_ FloatingPoint 11 53)"
	}
}

type Op uint8

const (
	OpConst Op = iota
	OpVar
	OpNot
	OpAnd
	OpOr
	OpIte
	OpEq
	OpAdd
	OpSub
	OpMul
	OpUDiv
	OpSDiv
	OpURem
	OpSRem
	OpBAnd
	OpBOr
	OpBXor
	OpBNot
	OpNeg
	OpShl
	OpLShr
	OpAShr
	OpUlt
	OpUle
	OpSlt
	OpSle
	OpZext    // val = new width
	OpSext    // val = new width
	OpExtract // val = hi<<8|lo
	OpFAdd
	OpFSub
	OpFMul
	OpFDiv
	OpFNeg
	OpFLt
	OpFLe
	OpFEq
	OpFIsNaN
	OpSIToFP // val = fp width
	OpUIToFP
	OpFPToSI // val = int width
	OpFPToUI
	OpFPToFP    // val = target width
	OpFFromBits // bv -> fp reinterpret
)

var opNames = map[Op]string{
	OpNot: "not", OpAnd: "and", OpOr: "or", OpIte: "ite", OpEq: "=",
	OpAdd: "bvadd", OpSub: "bvsub", OpMul: "bvmul", OpUDiv: "bvudiv", OpSDiv: "bvsdiv",
	OpURem: "bvurem", OpSRem: "bvsrem", OpBAnd: "bvand", OpBOr: "bvor", OpBXor: "bvxor",
	OpBNot: "bvnot", OpNeg: "bvneg", OpShl: "bvshl", OpLShr: "bvlshr", OpAShr: "bvashr",
	OpUlt: "bvult", OpUle: "bvule", OpSlt: "bvslt", OpSle: "bvsle",
	OpFAdd: "fp.add RNE", OpFSub: "fp.sub RNE", OpFMul: "fp.mul RNE", OpFDiv: "fp.div RNE",
	OpFNeg: "fp.neg", OpFLt: "fp.lt", OpFLe: "fp.leq", OpFEq: "fp.eq", OpFIsNaN: "fp.isNaN",
}

type Term struct {
	id   int
	op   Op
	sort Sort
	args []*Term
	val  uint64 // constant payload / extra parameter
	name string // variable name
	km   uint64 // known-bits mask (BV terms)
	kv   uint64 // known-bits values
}

func (t *Term) IsConst() bool { return t.op == OpConst }
func (t *Term) Sort() Sort    { return t.sort }

// TermTable hash-conses terms; one per worker (not goroutine safe).
type TermTable struct {
	tab   map[string]*Term
	terms []*Term
	True  *Term
	False *Term
	hasMulDiv map[int]bool
	scaled    map[int]bool // multiplications by a positive constant known not to overflow (durations)
}

func NewTermTable() *TermTable {
	tt := &TermTable{tab: map[string]*Term{}}
	tt.True = tt.mk(OpConst, SBool, 1, "")
	tt.False = tt.mk(OpConst, SBool, 0, "")
	return tt
}

func (tt *TermTable) mk(op Op, s Sort, val uint64, name string, args ...*Term) *Term {
	var sb strings.Builder
	fmt.Fprintf(&sb, "%d|%d|%d|%d|%s", op, s.K, s.W, val, name)
	for _, a := range args {
		fmt.Fprintf(&sb, "|%d", a.id)
	}
	k := sb.String()
	if t, ok := tt.tab[k]; ok {
		return t
	}
	t := &Term{id: len(tt.terms), op: op, sort: s, val: val, name: name}
	if len(args) > 0 {
		t.args = append([]*Term(nil), args...)
	}
	if s.K == KBV {
		t.computeKnown()
	}
	tt.tab[k] = t
	tt.terms = append(tt.terms, t)
	return t
}

func mask(w int) uint64 {
	if w >= 64 {
		return ^uint64(0)
	}
	return (uint64(1) << uint(w)) - 1
}

func sext(v uint64, w int) int64 {
	if w >= 64 {
		return int64(v)
	}
	sh := uint(64 - w)
	return int64(v<<sh) >> sh
}

func (tt *TermTable) Bool(b bool) *Term {
	if b {
		return tt.True
	}
	return tt.False
}

func (tt *TermTable) Const(w int, v uint64) *Term {
	return tt.mk(OpConst, BV(w), v&mask(w), "")
}

func (tt *TermTable) F64(f float64) *Term { return tt.mk(OpConst, SF64, math.Float64bits(f), "") }
func (tt *TermTable) F32(f float32) *Term {
	return tt.mk(OpConst, SF32, uint64(math.Float32bits(f)), "")
}

func (tt *TermTable) Var(name string, s Sort) *Term { return tt.mk(OpVar, s, 0, name) }

func (t *Term) BoolVal() bool { return t.val != 0 }
func (t *Term) U64() uint64   { return t.val }
func (t *Term) I64() int64    { return sext(t.val, t.sort.W) }
func (t *Term) F64() float64 {
	if t.sort.W == 32 {
		return float64(math.Float32frombits(uint32(t.val)))
	}
	return math.Float64frombits(t.val)
}

func (tt *TermTable) fconst(w int, f float64) *Term {
	if w == 32 {
		return tt.F32(float32(f))
	}
	return tt.F64(f)
}

// ---- boolean ----

func (tt *TermTable) Not(a *Term) *Term {
	if a.IsConst() {
		return tt.Bool(!a.BoolVal())
	}
	if a.op == OpNot {
		return a.args[0]
	}
	return tt.mk(OpNot, SBool, 0, "", a)
}

func (tt *TermTable) And(a, b *Term) *Term {
	if a.IsConst() {
		if a.BoolVal() {
			return b
		}
		return tt.False
	}
	if b.IsConst() {
		if b.BoolVal() {
			return a
		}
		return tt.False
	}
	if a == b {
		return a
	}
	if a.id > b.id {
		a, b = b, a
	}
	return tt.mk(OpAnd, SBool, 0, "", a, b)
}

func (tt *TermTable) Or(a, b *Term) *Term {
	if a.IsConst() {
		if a.BoolVal() {
			return tt.True
		}
		return b
	}
	if b.IsConst() {
		if b.BoolVal() {
			return tt.True
		}
		return a
	}
	if a == b {
		return a
	}
	if a.id > b.id {
		a, b = b, a
	}
	return tt.mk(OpOr, SBool, 0, "", a, b)
}

func (tt *TermTable) Implies(a, b *Term) *Term { return tt.Or(tt.Not(a), b) }

func (tt *TermTable) Ite(c, a, b *Term) *Term {
	if c.IsConst() {
		if c.BoolVal() {
			return a
		}
		return b
	}
	if a == b {
		return a
	}
	if a.sort != b.sort {
		panic(fmt.Sprintf("ite sort mismatch %v %v", a.sort, b.sort))
	}
	if a.sort.K == KBool {
		if a.IsConst() && b.IsConst() {
			if a.BoolVal() {
				return c
			}
			return tt.Not(c)
		}
	}
	return tt.mk(OpIte, a.sort, 0, "", c, a, b)
}

func (tt *TermTable) Eq(a, b *Term) *Term {
	if a.sort != b.sort {
		panic(fmt.Sprintf("eq sort mismatch %v %v", a.sort, b.sort))
	}
	if a.sort.K == KBV && a.sort.W == 64 && len(tt.scaled) > 0 {
		x, c, okx := tt.scaledParts(a)
		y, c2, oky := tt.scaledParts(b)
		switch {
		case okx && oky && c == c2:
			return tt.Eq(x, y)
		case okx && b.IsConst():
			if b.I64()%int64(c) != 0 {
				return tt.False
			}
			return tt.Eq(x, tt.Const(64, uint64(b.I64()/int64(c))))
		case oky && a.IsConst():
			if a.I64()%int64(c2) != 0 {
				return tt.False
			}
			return tt.Eq(y, tt.Const(64, uint64(a.I64()/int64(c2))))
		}
	}
	if a == b {
		if a.sort.K == KFP {
			// bitwise identical terms: structural equality
			return tt.True
		}
		return tt.True
	}
	if a.IsConst() && b.IsConst() {
		return tt.Bool(a.val == b.val)
	}
	if a.sort.K == KBV {
		if k := a.km & b.km; (a.kv^b.kv)&k != 0 {
			return tt.False
		}
	}
	if a.sort.K == KBool {
		if a.IsConst() {
			if a.BoolVal() {
				return b
			}
			return tt.Not(b)
		}
		if b.IsConst() {
			if b.BoolVal() {
				return a
			}
			return tt.Not(a)
		}
	}
	if a.id > b.id {
		a, b = b, a
	}
	return tt.mk(OpEq, SBool, 0, "", a, b)
}

// ---- bit-vectors ----

// MulScaled builds x*c for a positive constant c under the caller's guarantee that
// neither this product nor the sums/differences later formed from such products
// overflow. Comparisons and +/- between scaled values are then rewritten to the
// unscaled operands (x*c < y*c  <=>  x < y), which keeps multiplication out of the queries.
func (tt *TermTable) MulScaled(x *Term, c uint64) *Term {
	t := tt.Bin(OpMul, x, tt.Const(x.sort.W, c))
	if t.op == OpMul {
		if tt.scaled == nil {
			tt.scaled = map[int]bool{}
		}
		tt.scaled[t.id] = true
	}
	return t
}

func (tt *TermTable) scaledParts(t *Term) (*Term, uint64, bool) {
	if t.op == OpMul && tt.scaled[t.id] && t.args[1].IsConst() {
		return t.args[0], t.args[1].val, true
	}
	return nil, 0, false
}

func floorDiv(a, b int64) int64 {
	q := a / b
	if (a%b != 0) && ((a < 0) != (b < 0)) {
		q--
	}
	return q
}

func (tt *TermTable) Bin(op Op, a, b *Term) *Term {
	if a.sort != b.sort {
		panic(fmt.Sprintf("binop %v sort mismatch %v %v", opNames[op], a.sort, b.sort))
	}
	w := a.sort.W
	if (op == OpAdd || op == OpSub) && w == 64 && len(tt.scaled) > 0 {
		if x, c, ok := tt.scaledParts(a); ok {
			if y, c2, ok2 := tt.scaledParts(b); ok2 && c2 == c {
				return tt.MulScaled(tt.Bin(op, x, y), c)
			}
			if b.IsConst() && b.I64()%int64(c) == 0 {
				return tt.MulScaled(tt.Bin(op, x, tt.Const(64, uint64(b.I64()/int64(c)))), c)
			}
		} else if y, c, ok := tt.scaledParts(b); ok && a.IsConst() && a.I64()%int64(c) == 0 {
			return tt.MulScaled(tt.Bin(op, tt.Const(64, uint64(a.I64()/int64(c))), y), c)
		}
	}
	if a.IsConst() && b.IsConst() {
		x, y := a.val, b.val
		var r uint64
		ok := true
		switch op {
		case OpAdd:
			r = x + y
		case OpSub:
			r = x - y
		case OpMul:
			r = x * y
		case OpUDiv:
			if y == 0 {
				r = mask(w)
			} else {
				r = x / y
			}
		case OpURem:
			if y == 0 {
				r = x
			} else {
				r = x % y
			}
		case OpSDiv:
			sx, sy := sext(x, w), sext(y, w)
			if sy == 0 {
				if sx < 0 {
					r = 1
				} else {
					r = mask(w)
				}
			} else if sy == -1 {
				r = uint64(-sx)
			} else {
				r = uint64(sx / sy)
			}
		case OpSRem:
			sx, sy := sext(x, w), sext(y, w)
			if sy == 0 {
				r = x
			} else if sy == -1 {
				r = 0
			} else {
				r = uint64(sx % sy)
			}
		case OpBAnd:
			r = x & y
		case OpBOr:
			r = x | y
		case OpBXor:
			r = x ^ y
		case OpShl:
			if y >= uint64(w) {
				r = 0
			} else {
				r = x << y
			}
		case OpLShr:
			if y >= uint64(w) {
				r = 0
			} else {
				r = x >> y
			}
		case OpAShr:
			sx := sext(x, w)
			if y >= uint64(w) {
				if sx < 0 {
					r = mask(w)
				} else {
					r = 0
				}
			} else {
				r = uint64(sx >> y)
			}
		default:
			ok = false
		}
		if ok {
			return tt.Const(w, r)
		}
	}
	// light identities
	switch op {
	case OpAdd:
		if a.IsConst() && a.val == 0 {
			return b
		}
		if b.IsConst() && b.val == 0 {
			return a
		}
		if a.IsConst() { // canonical: const on the right
			a, b = b, a
		}
		// (x + c1) + c2
		if b.IsConst() && a.op == OpAdd && a.args[1].IsConst() {
			return tt.Bin(OpAdd, a.args[0], tt.Const(w, a.args[1].val+b.val))
		}
	case OpSub:
		if b.IsConst() && b.val == 0 {
			return a
		}
		if a == b {
			return tt.Const(w, 0)
		}
		if b.IsConst() {
			return tt.Bin(OpAdd, a, tt.Const(w, -b.val))
		}
	case OpMul:
		if a.IsConst() {
			a, b = b, a
		}
		if b.IsConst() {
			if b.val == 0 {
				return b
			}
			if b.val == 1 {
				return a
			}
		}
	case OpBAnd:
		if a.IsConst() {
			a, b = b, a
		}
		if b.IsConst() {
			if b.val == 0 {
				return b
			}
			if b.val == mask(w) {
				return a
			}
		}
		if a == b {
			return a
		}
		if b.IsConst() {
			// bits of a already known zero outside b, or (x op c1) & c2 rewrites
			if zeroKnown := a.km &^ a.kv; (^b.val&mask(w))&^zeroKnown == 0 {
				return a // every bit cleared by the mask is already known to be zero
			}
			if a.op == OpBAnd && a.args[1].IsConst() {
				return tt.Bin(OpBAnd, a.args[0], tt.Const(w, a.args[1].val&b.val))
			}
			if a.op == OpBOr && a.args[1].IsConst() {
				return tt.Bin(OpBOr, tt.Bin(OpBAnd, a.args[0], b), tt.Const(w, a.args[1].val&b.val))
			}
		}
	case OpBOr, OpBXor:
		if a.IsConst() {
			a, b = b, a
		}
		if b.IsConst() && b.val == 0 {
			return a
		}
		if a == b {
			if op == OpBOr {
				return a
			}
			return tt.Const(w, 0)
		}
	case OpShl, OpLShr, OpAShr:
		if b.IsConst() && b.val == 0 {
			return a
		}
		if b.IsConst() && b.val >= uint64(w) && op != OpAShr {
			return tt.Const(w, 0)
		}
	case OpUDiv, OpSDiv:
		if b.IsConst() && b.val == 1 {
			return a
		}
	}
	r := tt.mk(op, a.sort, 0, "", a, b)
	if r.km == mask(w) {
		return tt.Const(w, r.kv)
	}
	return r
}

func (tt *TermTable) Cmp(op Op, a, b *Term) *Term {
	if a.sort != b.sort {
		panic(fmt.Sprintf("cmp sort mismatch %v %v", a.sort, b.sort))
	}
	w := a.sort.W
	if (op == OpSlt || op == OpSle) && w == 64 && len(tt.scaled) > 0 {
		x, c, okx := tt.scaledParts(a)
		y, c2, oky := tt.scaledParts(b)
		switch {
		case okx && oky && c == c2:
			return tt.Cmp(op, x, y)
		case okx && b.IsConst():
			k := b.I64()
			if op == OpSlt { // x*c < k  <=>  x < ceil(k/c)
				return tt.Cmp(OpSlt, x, tt.Const(64, uint64(-floorDiv(-k, int64(c)))))
			}
			return tt.Cmp(OpSle, x, tt.Const(64, uint64(floorDiv(k, int64(c))))) // x*c <= k <=> x <= floor(k/c)
		case oky && a.IsConst():
			k := a.I64()
			if op == OpSlt { // k < y*c  <=>  floor(k/c) < y
				return tt.Cmp(OpSlt, tt.Const(64, uint64(floorDiv(k, int64(c2)))), y)
			}
			return tt.Cmp(OpSle, tt.Const(64, uint64(-floorDiv(-k, int64(c2)))), y) // k <= y*c <=> ceil(k/c) <= y
		}
	}
	if a.IsConst() && b.IsConst() {
		switch op {
		case OpUlt:
			return tt.Bool(a.val < b.val)
		case OpUle:
			return tt.Bool(a.val <= b.val)
		case OpSlt:
			return tt.Bool(sext(a.val, w) < sext(b.val, w))
		case OpSle:
			return tt.Bool(sext(a.val, w) <= sext(b.val, w))
		}
	}
	if a == b {
		return tt.Bool(op == OpUle || op == OpSle)
	}
	if a.sort.K == KBV {
		alo, ahi := a.urange()
		blo, bhi := b.urange()
		switch op {
		case OpUlt:
			if ahi < blo {
				return tt.True
			}
			if alo >= bhi {
				return tt.False
			}
		case OpUle:
			if ahi <= blo {
				return tt.True
			}
			if alo > bhi {
				return tt.False
			}
		case OpSlt, OpSle:
			// usable when both sign bits are known
			sb := uint64(1) << uint(w-1)
			if a.km&sb != 0 && b.km&sb != 0 {
				an, bn := a.kv&sb != 0, b.kv&sb != 0
				if an != bn {
					return tt.Bool(an)
				}
				// same sign: unsigned comparison of the ranges decides
				if op == OpSlt {
					if ahi < blo {
						return tt.True
					}
					if alo >= bhi {
						return tt.False
					}
				} else {
					if ahi <= blo {
						return tt.True
					}
					if alo > bhi {
						return tt.False
					}
				}
			}
		}
	}
	return tt.mk(op, SBool, 0, "", a, b)
}

func (tt *TermTable) BNot(a *Term) *Term {
	if a.IsConst() {
		return tt.Const(a.sort.W, ^a.val)
	}
	return tt.mk(OpBNot, a.sort, 0, "", a)
}

func (tt *TermTable) Neg(a *Term) *Term {
	if a.IsConst() {
		return tt.Const(a.sort.W, -a.val)
	}
	if x, c, ok := tt.scaledParts(a); ok {
		return tt.MulScaled(tt.Neg(x), c)
	}
	return tt.mk(OpNeg, a.sort, 0, "", a)
}

func (tt *TermTable) Zext(a *Term, w int) *Term {
	if a.sort.W == w {
		return a
	}
	if a.sort.W > w {
		return tt.Extract(a, w-1, 0)
	}
	if a.IsConst() {
		return tt.Const(w, a.val)
	}
	return tt.mk(OpZext, BV(w), uint64(w), "", a)
}

func (tt *TermTable) Sext(a *Term, w int) *Term {
	if a.sort.W == w {
		return a
	}
	if a.sort.W > w {
		return tt.Extract(a, w-1, 0)
	}
	if a.IsConst() {
		return tt.Const(w, uint64(sext(a.val, a.sort.W)))
	}
	return tt.mk(OpSext, BV(w), uint64(w), "", a)
}

func (tt *TermTable) Extract(a *Term, hi, lo int) *Term {
	w := hi - lo + 1
	if lo == 0 && w == a.sort.W {
		return a
	}
	if a.IsConst() {
		return tt.Const(w, a.val>>uint(lo))
	}
	if lo == 0 && (a.op == OpZext || a.op == OpSext) && a.args[0].sort.W >= w {
		return tt.Extract(a.args[0], hi, lo)
	}
	return tt.mk(OpExtract, BV(w), uint64(hi)<<8|uint64(lo), "", a)
}

// ---- floating point ----

func (tt *TermTable) FBin(op Op, a, b *Term) *Term {
	if a.sort != b.sort {
		panic("fbin sort mismatch")
	}
	if a.IsConst() && b.IsConst() {
		x, y := a.F64(), b.F64()
		w := a.sort.W
		if w == 32 {
			fx, fy := float32(x), float32(y)
			switch op {
			case OpFAdd:
				return tt.F32(fx + fy)
			case OpFSub:
				return tt.F32(fx - fy)
			case OpFMul:
				return tt.F32(fx * fy)
			case OpFDiv:
				return tt.F32(fx / fy)
			}
		} else {
			switch op {
			case OpFAdd:
				return tt.F64(x + y)
			case OpFSub:
				return tt.F64(x - y)
			case OpFMul:
				return tt.F64(x * y)
			case OpFDiv:
				return tt.F64(x / y)
			}
		}
	}
	return tt.mk(op, a.sort, 0, "", a, b)
}

func (tt *TermTable) FCmp(op Op, a, b *Term) *Term {
	if a.IsConst() && b.IsConst() {
		x, y := a.F64(), b.F64()
		switch op {
		case OpFLt:
			return tt.Bool(x < y)
		case OpFLe:
			return tt.Bool(x <= y)
		case OpFEq:
			return tt.Bool(x == y)
		}
	}
	return tt.mk(op, SBool, 0, "", a, b)
}

func (tt *TermTable) FNeg(a *Term) *Term {
	if a.IsConst() {
		return tt.fconst(a.sort.W, -a.F64())
	}
	return tt.mk(OpFNeg, a.sort, 0, "", a)
}

func (tt *TermTable) FIsNaN(a *Term) *Term {
	if a.IsConst() {
		return tt.Bool(math.IsNaN(a.F64()))
	}
	return tt.mk(OpFIsNaN, SBool, 0, "", a)
}

func (tt *TermTable) IntToFP(a *Term, signed bool, fw int) *Term {
	if a.IsConst() {
		if signed {
			return tt.fconst(fw, float64(a.I64()))
		}
		return tt.fconst(fw, float64(a.val))
	}
	op := OpUIToFP
	if signed {
		op = OpSIToFP
	}
	return tt.mk(op, Sort{KFP, fw}, uint64(fw), "", a)
}

func (tt *TermTable) FPToInt(a *Term, signed bool, iw int) *Term {
	if a.IsConst() {
		f := a.F64()
		if signed {
			return tt.Const(iw, uint64(int64(f)))
		}
		return tt.Const(iw, uint64(f))
	}
	op := OpFPToUI
	if signed {
		op = OpFPToSI
	}
	return tt.mk(op, BV(iw), uint64(iw), "", a)
}

func (tt *TermTable) FPToFP(a *Term, fw int) *Term {
	if a.sort.W == fw {
		return a
	}
	if a.IsConst() {
		return tt.fconst(fw, a.F64())
	}
	return tt.mk(OpFPToFP, Sort{KFP, fw}, uint64(fw), "", a)
}

func (tt *TermTable) FFromBits(a *Term) *Term {
	if a.IsConst() {
		return tt.mk(OpConst, Sort{KFP, a.sort.W}, a.val, "")
	}
	return tt.mk(OpFFromBits, Sort{KFP, a.sort.W}, 0, "", a)
}

// FToBits is only defined for constants and reinterpretations of bit vectors.
func (tt *TermTable) FToBits(a *Term) (*Term, bool) {
	if a.IsConst() {
		return tt.Const(a.sort.W, a.val), true
	}
	if a.op == OpFFromBits {
		return a.args[0], true
	}
	return nil, false
}

// ---- printing ----

func bvLit(w int, v uint64) string {
	if w%4 == 0 {
		return fmt.Sprintf("#x%0*x", w/4, v&mask(w))
	}
	return fmt.Sprintf("#b%0*b", w, v&mask(w))
}

func fpLit(w int, b uint64) string {
	if w == 32 {
		return fmt.Sprintf("(fp #b%b #b%08b #b%023b)", (b>>31)&1, (b>>23)&0xff, b&0x7fffff)
	}
	return fmt.Sprintf("(fp #b%b #b%011b #b%052b)", (b>>63)&1, (b>>52)&0x7ff, b&((1<<52)-1))
}

func symName(n string) string { return "|" + n + "|" }

// ref returns how a term is referenced inside another expression.
func (t *Term) ref() string {
	switch t.op {
	case OpConst:
		switch t.sort.K {
		case KBool:
			if t.val != 0 {
				return "true"
			}
			return "false"
		case KBV:
			return bvLit(t.sort.W, t.val)
		default:
			return fpLit(t.sort.W, t.val)
		}
	case OpVar:
		return symName(t.name)
	}
	return fmt.Sprintf("t%d", t.id)
}

// body prints the defining expression of a non-leaf term using refs of its args.
func (t *Term) body() string {
	var sb strings.Builder
	switch t.op {
	case OpZext:
		fmt.Fprintf(&sb, "((_ zero_extend %d) %s)", int(t.val)-t.args[0].sort.W, t.args[0].ref())
		return sb.String()
	case OpSext:
		fmt.Fprintf(&sb, "((_ sign_extend %d) %s)", int(t.val)-t.args[0].sort.W, t.args[0].ref())
		return sb.String()
	case OpExtract:
		fmt.Fprintf(&sb, "((_ extract %d %d) %s)", t.val>>8, t.val&0xff, t.args[0].ref())
		return sb.String()
	case OpSIToFP:
		fmt.Fprintf(&sb, "((_ to_fp %s) RNE %s)", fpDims(int(t.val)), t.args[0].ref())
		return sb.String()
	case OpUIToFP:
		fmt.Fprintf(&sb, "((_ to_fp_unsigned %s) RNE %s)", fpDims(int(t.val)), t.args[0].ref())
		return sb.String()
	case OpFPToSI:
		fmt.Fprintf(&sb, "((_ fp.to_sbv %d) RTZ %s)", t.val, t.args[0].ref())
		return sb.String()
	case OpFPToUI:
		fmt.Fprintf(&sb, "((_ fp.to_ubv %d) RTZ %s)", t.val, t.args[0].ref())
		return sb.String()
	case OpFPToFP:
		fmt.Fprintf(&sb, "((_ to_fp %s) RNE %s)", fpDims(int(t.val)), t.args[0].ref())
		return sb.String()
	case OpFFromBits:
		fmt.Fprintf(&sb, "((_ to_fp %s) %s)", fpDims(t.sort.W), t.args[0].ref())
		return sb.String()
	}
	sb.WriteString("(")
	sb.WriteString(opNames[t.op])
	for _, a := range t.args {
		sb.WriteString(" ")
		sb.WriteString(a.ref())
	}
	sb.WriteString(")")
	return sb.String()
}

func fpDims(w int) string {
	if w == 32 {
		return "8 24"
	}
	return "11 53"
}

// Eval evaluates a term under an assignment of variables (used to double check
// solver models and for concrete replays inside the engine).
func (tt *TermTable) Eval(t *Term, env map[string]uint64, memo map[int]*Term) *Term {
	if t.op == OpConst {
		return t
	}
	if r, ok := memo[t.id]; ok {
		return r
	}
	var r *Term
	if t.op == OpVar {
		v := env[t.name]
		switch t.sort.K {
		case KBool:
			r = tt.Bool(v != 0)
		case KBV:
			r = tt.Const(t.sort.W, v)
		default:
			r = tt.mk(OpConst, t.sort, v, "")
		}
		memo[t.id] = r
		return r
	}
	as := make([]*Term, len(t.args))
	for i, a := range t.args {
		as[i] = tt.Eval(a, env, memo)
	}
	r = tt.rebuild(t, as)
	memo[t.id] = r
	return r
}

func (tt *TermTable) rebuild(t *Term, as []*Term) *Term {
	switch t.op {
	case OpNot:
		return tt.Not(as[0])
	case OpAnd:
		return tt.And(as[0], as[1])
	case OpOr:
		return tt.Or(as[0], as[1])
	case OpIte:
		return tt.Ite(as[0], as[1], as[2])
	case OpEq:
		return tt.Eq(as[0], as[1])
	case OpAdd, OpSub, OpMul, OpUDiv, OpSDiv, OpURem, OpSRem, OpBAnd, OpBOr, OpBXor, OpShl, OpLShr, OpAShr:
		return tt.Bin(t.op, as[0], as[1])
	case OpUlt, OpUle, OpSlt, OpSle:
		return tt.Cmp(t.op, as[0], as[1])
	case OpBNot:
		return tt.BNot(as[0])
	case OpNeg:
		return tt.Neg(as[0])
	case OpZext:
		return tt.Zext(as[0], int(t.val))
	case OpSext:
		return tt.Sext(as[0], int(t.val))
	case OpExtract:
		return tt.Extract(as[0], int(t.val>>8), int(t.val&0xff))
	case OpFAdd, OpFSub, OpFMul, OpFDiv:
		return tt.FBin(t.op, as[0], as[1])
	case OpFLt, OpFLe, OpFEq:
		return tt.FCmp(t.op, as[0], as[1])
	case OpFNeg:
		return tt.FNeg(as[0])
	case OpFIsNaN:
		return tt.FIsNaN(as[0])
	case OpSIToFP:
		return tt.IntToFP(as[0], true, int(t.val))
	case OpUIToFP:
		return tt.IntToFP(as[0], false, int(t.val))
	case OpFPToSI:
		return tt.FPToInt(as[0], true, int(t.val))
	case OpFPToUI:
		return tt.FPToInt(as[0], false, int(t.val))
	case OpFPToFP:
		return tt.FPToFP(as[0], int(t.val))
	case OpFFromBits:
		return tt.FFromBits(as[0])
	}
	panic("rebuild: unknown op")
}

// usesHardArith reports whether the term DAG contains mul/div/rem by anything
// (used to route queries to the integer-encoding back end).
func (tt *TermTable) usesHardArith(t *Term, memo map[int]bool) bool {
	if v, ok := memo[t.id]; ok {
		return v
	}
	r := false
	switch t.op {
	case OpMul, OpUDiv, OpSDiv, OpURem, OpSRem:
		r = true
	}
	if !r {
		for _, a := range t.args {
			if tt.usesHardArith(a, memo) {
				r = true
				break
			}
		}
	}
	memo[t.id] = r
	return r
}

var _ = bits.Len64

// computeKnown derives bits whose value is fixed regardless of the variables.
func (t *Term) computeKnown() {
	w := t.sort.W
	m := mask(w)
	switch t.op {
	case OpConst:
		t.km, t.kv = m, t.val
	case OpBAnd:
		a, b := t.args[0], t.args[1]
		zero := (a.km &^ a.kv) | (b.km &^ b.kv)
		one := (a.km & a.kv) & (b.km & b.kv)
		t.km, t.kv = (zero|one)&m, one&m
	case OpBOr:
		a, b := t.args[0], t.args[1]
		one := (a.km & a.kv) | (b.km & b.kv)
		zero := (a.km &^ a.kv) & (b.km &^ b.kv)
		t.km, t.kv = (zero|one)&m, one&m
	case OpBXor:
		a, b := t.args[0], t.args[1]
		k := a.km & b.km
		t.km, t.kv = k&m, (a.kv^b.kv)&k&m
	case OpBNot:
		a := t.args[0]
		t.km, t.kv = a.km, (^a.kv)&a.km&m
	case OpZext:
		a := t.args[0]
		hi := m &^ mask(a.sort.W)
		t.km, t.kv = a.km|hi, a.kv
	case OpSext:
		a := t.args[0]
		aw := a.sort.W
		hi := m &^ mask(aw)
		t.km, t.kv = a.km, a.kv
		if a.km&(1<<uint(aw-1)) != 0 {
			t.km |= hi
			if a.kv&(1<<uint(aw-1)) != 0 {
				t.kv |= hi
			}
		}
	case OpExtract:
		a := t.args[0]
		lo := uint(t.val & 0xff)
		t.km, t.kv = (a.km>>lo)&m, (a.kv>>lo)&m
	case OpShl:
		a, b := t.args[0], t.args[1]
		if b.IsConst() && b.val < uint64(w) {
			sh := uint(b.val)
			t.km, t.kv = ((a.km<<sh)|mask(int(sh)))&m, (a.kv<<sh)&m
		}
	case OpLShr:
		a, b := t.args[0], t.args[1]
		if b.IsConst() && b.val < uint64(w) {
			sh := uint(b.val)
			hi := m &^ (m >> sh)
			t.km, t.kv = ((a.km>>sh)|hi)&m, (a.kv>>sh)&m
		}
	case OpIte:
		a, b := t.args[1], t.args[2]
		k := a.km & b.km &^ (a.kv ^ b.kv)
		t.km, t.kv = k&m, a.kv&k&m
	}
}

// urange returns unsigned bounds implied by the known bits.
func (t *Term) urange() (uint64, uint64) {
	m := mask(t.sort.W)
	return t.kv & t.km, (t.kv | ^t.km) & m
}

// expand prints a term as a nested expression up to a depth (diagnostics).
func (tt *TermTable) expand(t *Term, depth int) string {
	if t.op == OpConst || t.op == OpVar {
		return t.ref()
	}
	if depth == 0 {
		return "…"
	}
	name := opNames[t.op]
	if name == "" {
		name = fmt.Sprintf("op%d[%d]", t.op, t.val)
	}
	s := "(" + name
	for _, a := range t.args {
		s += " " + tt.expand(a, depth-1)
	}
	return s + ")"
}
