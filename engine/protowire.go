package main

// proto.Unmarshal intrinsic: protobuf-go is reflection/unsafe code, so the call is
// replaced by a proto2 wire parser driven by the `protobuf:"..."` struct tags of the
// generated message types as they are in /repo's current tree. Semantics kept:
// the message is reset first, last scalar wins, repeated fields append (packed and
// unpacked accepted), unknown fields are skipped, a field whose wire type does not
// match is treated as unknown, malformed wire data or a missing required field is
// an error, and nothing in the result aliases the input buffer.

import (
	"go/types"
	"reflect"
	"strconv"
	"strings"
)

type pbField struct {
	idx      int
	num      int
	kind     string // varint, bytes, fixed32, fixed64, zigzag32, zigzag64, group
	card     string // opt, req, rep
	typ      types.Type
	name     string
}

func pbFields(st *types.Struct) []pbField {
	var fs []pbField
	for i := 0; i < st.NumFields(); i++ {
		tag := reflect.StructTag(st.Tag(i)).Get("protobuf")
		if tag == "" {
			continue
		}
		parts := strings.Split(tag, ",")
		if len(parts) < 3 {
			continue
		}
		n, _ := strconv.Atoi(parts[1])
		fs = append(fs, pbField{idx: i, num: n, kind: parts[0], card: parts[2], typ: st.Field(i).Type(), name: st.Field(i).Name()})
	}
	return fs
}

type pbErr struct{ msg string }

// pbVarint reads a base-128 varint from b at *idx (forking on symbolic continuation bits).
func (in *Interp) pbVarint(b []*Term, idx *int) *Term {
	tt := in.tt
	val := tt.Const(64, 0)
	for shift := 0; shift < 70; shift += 7 {
		if *idx >= len(b) {
			panic(pbErr{"unexpected EOF in varint"})
		}
		d := b[*idx]
		*idx++
		if shift < 64 {
			val = tt.Bin(OpBOr, val, tt.Bin(OpShl, tt.Zext(tt.Bin(OpBAnd, d, tt.Const(8, 0x7f)), 64), tt.Const(64, uint64(shift))))
		}
		cont := tt.Not(tt.Cmp(OpUlt, d, tt.Const(8, 0x80)))
		if !in.branch(cont) {
			if shift == 63 {
				// 10th byte may only carry one bit
				over := tt.Not(tt.Cmp(OpUlt, d, tt.Const(8, 2)))
				if in.branch(over) {
					panic(pbErr{"varint overflow"})
				}
			}
			return val
		}
		if shift >= 63 {
			panic(pbErr{"varint overflow"})
		}
	}
	panic(pbErr{"varint overflow"})
}

func (in *Interp) pbLen(b []*Term, idx *int) int {
	l := in.pbVarint(b, idx)
	rem := len(b) - *idx
	if l.IsConst() {
		if l.val > uint64(rem) {
			panic(pbErr{"length beyond buffer"})
		}
		return int(l.val)
	}
	conds := make([]*Term, 0, rem+2)
	for i := 0; i <= rem; i++ {
		conds = append(conds, in.tt.Eq(l, in.tt.Const(64, uint64(i))))
	}
	conds = append(conds, in.tt.Cmp(OpUlt, in.tt.Const(64, uint64(rem)), l))
	k := in.choose(conds)
	if k > rem {
		panic(pbErr{"length beyond buffer"})
	}
	return k
}

func (in *Interp) pbSkip(b []*Term, idx *int, wt int) {
	switch wt {
	case 0:
		in.pbVarint(b, idx)
	case 1:
		if *idx+8 > len(b) {
			panic(pbErr{"unexpected EOF"})
		}
		*idx += 8
	case 2:
		l := in.pbLen(b, idx)
		*idx += l
	case 5:
		if *idx+4 > len(b) {
			panic(pbErr{"unexpected EOF"})
		}
		*idx += 4
	default:
		panic(pbErr{"unsupported wire type (group)"})
	}
}

func (in *Interp) pbScalar(kind string, t types.Type, raw *Term) Value {
	tt := in.tt
	w, _, isI := isInt(t)
	if isBool(t) {
		return tt.Not(tt.Eq(raw, tt.Const(64, 0)))
	}
	if !isI {
		in.unsupported("protobuf scalar of Go type %s", t)
	}
	switch kind {
	case "zigzag32", "zigzag64":
		// (v >> 1) ^ -(v & 1)
		un := tt.Bin(OpBXor, tt.Bin(OpLShr, raw, tt.Const(64, 1)), tt.Neg(tt.Bin(OpBAnd, raw, tt.Const(64, 1))))
		return tt.Extract(un, w-1, 0)
	}
	return tt.Extract(raw, w-1, 0)
}

// pbUnmarshal fills the message struct cell from wire bytes.
func (in *Interp) pbUnmarshal(b []*Term, cell *Cell, st *types.Struct) {
	// reset (unless merging: UnmarshalOptions{Merge: true} keeps what the message holds,
	// scalars are overwritten, repeated fields appended)
	if !in.pbMerge {
		for i, sc := range cell.sub {
			in.store(sc, in.zero(st.Field(i).Type()))
		}
	}
	fields := pbFields(st)
	seen := map[int]bool{}
	idx := 0
	for idx < len(b) {
		key := in.pbVarint(b, &idx)
		var kv uint64
		if key.IsConst() {
			kv = key.val
		} else {
			// fork over the field numbers this message knows, each wire type; anything else is unknown
			var conds []*Term
			var vals []uint64
			for _, f := range fields {
				for wt := 0; wt <= 5; wt++ {
					v := uint64(f.num)<<3 | uint64(wt)
					conds = append(conds, in.tt.Eq(key, in.tt.Const(64, v)))
					vals = append(vals, v)
				}
			}
			other := in.tt.True
			for _, c := range conds {
				other = in.tt.And(other, in.tt.Not(c))
			}
			conds = append(conds, other)
			k := in.choose(conds)
			if k == len(vals) {
				in.unsupported("proto.Unmarshal: fully symbolic field key outside the message's fields")
			}
			kv = vals[k]
		}
		num, wt := int(kv>>3), int(kv&7)
		if num == 0 {
			panic(pbErr{"invalid field number"})
		}
		var f *pbField
		for i := range fields {
			if fields[i].num == num {
				f = &fields[i]
			}
		}
		if f == nil {
			in.pbSkip(b, &idx, wt)
			continue
		}
		fc := cell.sub[f.idx]
		ut := f.typ.Underlying()
		switch f.kind {
		case "varint", "zigzag32", "zigzag64":
			if sl, ok := ut.(*types.Slice); ok { // repeated scalar
				cur := in.load(fc).(SliceV)
				if wt == 2 { // packed
					l := in.pbLen(b, &idx)
					end := idx + l
					for idx < end {
						raw := in.pbVarint(b[:end], &idx)
						cur = in.appendVals(cur, []Value{in.pbScalar(f.kind, sl.Elem(), raw)}, sl.Elem())
					}
				} else if wt == 0 {
					raw := in.pbVarint(b, &idx)
					cur = in.appendVals(cur, []Value{in.pbScalar(f.kind, sl.Elem(), raw)}, sl.Elem())
				} else {
					in.pbSkip(b, &idx, wt)
					continue
				}
				in.store(fc, cur)
				seen[num] = true
				continue
			}
			if wt != 0 {
				in.pbSkip(b, &idx, wt)
				continue
			}
			raw := in.pbVarint(b, &idx)
			et := f.typ
			if p, ok := ut.(*types.Pointer); ok {
				et = p.Elem()
				nc := in.newCell(et)
				in.store(nc, in.pbScalar(f.kind, et, raw))
				in.store(fc, Ptr{nc})
			} else {
				in.store(fc, in.pbScalar(f.kind, et, raw))
			}
			seen[num] = true
		case "bytes":
			if wt != 2 {
				in.pbSkip(b, &idx, wt)
				continue
			}
			l := in.pbLen(b, &idx)
			payload := append([]*Term(nil), b[idx:idx+l]...)
			idx += l
			seen[num] = true
			in.pbStoreBytes(fc, f.typ, payload)
		default:
			in.unsupported("protobuf field kind %s", f.kind)
		}
	}
	for _, f := range fields {
		if f.card == "req" && !seen[f.num] {
			panic(pbErr{"required field " + f.name + " not set"})
		}
	}
}

func (in *Interp) pbStoreBytes(fc *Cell, t types.Type, payload []*Term) {
	switch u := t.Underlying().(type) {
	case *types.Basic: // string
		in.store(fc, in.mkStr(payload))
	case *types.Pointer:
		et := u.Elem()
		if isString(et) {
			nc := in.newCell(et)
			in.store(nc, in.mkStr(payload))
			in.store(fc, Ptr{nc})
			return
		}
		if st, ok := et.Underlying().(*types.Struct); ok { // nested message: merge into existing or new
			cur := in.load(fc).(Ptr)
			if cur.c == nil {
				nc := in.newCell(et)
				in.pbUnmarshalMerge(payload, nc, st, true)
				in.store(fc, Ptr{nc})
			} else {
				in.pbUnmarshalMerge(payload, cur.c, st, false)
			}
			return
		}
		in.unsupported("protobuf bytes field of type %s", t)
	case *types.Slice:
		if eb, ok := u.Elem().Underlying().(*types.Basic); ok && eb.Kind() == types.Uint8 { // []byte
			in.store(fc, in.bytesToSlice(payload))
			return
		}
		cur := in.load(fc).(SliceV)
		if isString(u.Elem()) { // []string
			in.store(fc, in.appendVals(cur, []Value{in.mkStr(payload)}, u.Elem()))
			return
		}
		if es, ok := u.Elem().Underlying().(*types.Slice); ok { // [][]byte
			if eb, ok := es.Elem().Underlying().(*types.Basic); ok && eb.Kind() == types.Uint8 {
				in.store(fc, in.appendVals(cur, []Value{in.bytesToSlice(payload)}, u.Elem()))
				return
			}
		}
		if ep, ok := u.Elem().Underlying().(*types.Pointer); ok { // []*Msg
			if st, ok := ep.Elem().Underlying().(*types.Struct); ok {
				nc := in.newCell(ep.Elem())
				in.pbUnmarshalMerge(payload, nc, st, true)
				in.store(fc, in.appendVals(cur, []Value{Ptr{nc}}, u.Elem()))
				return
			}
		}
		in.unsupported("protobuf repeated bytes field of type %s", t)
	default:
		in.unsupported("protobuf bytes field of type %s", t)
	}
}

// pbUnmarshalMerge parses a nested message (fresh cells are already zero).
func (in *Interp) pbUnmarshalMerge(b []*Term, cell *Cell, st *types.Struct, fresh bool) {
	if !fresh {
		in.unsupported("protobuf: repeated occurrence of a singular nested message (merge)")
	}
	in.pbUnmarshal(b, cell, st)
}

func init() {
	pbEntry := func(in *Interp, c *callCtx, bufArg, msgArg Value, merge bool) (ret Value) {
		buf := bufArg.(SliceV)
		msg := msgArg.(Iface)
		if msg.t == nil {
			return in.mkError("proto: nil message")
		}
		pt, ok := msg.t.Underlying().(*types.Pointer)
		if !ok {
			in.unsupported("proto.Unmarshal into %s", msg.t)
		}
		st, ok := pt.Elem().Underlying().(*types.Struct)
		if !ok {
			in.unsupported("proto.Unmarshal into %s", msg.t)
		}
		p := msg.v.(Ptr)
		b := in.sliceBytes(buf)
		defer func() {
			in.pbMerge = false
			if r := recover(); r != nil {
				if e, ok := r.(pbErr); ok {
					ret = in.mkError("proto: cannot parse invalid wire-format data: " + e.msg)
					return
				}
				panic(r)
			}
		}()
		in.pbMerge = merge
		in.pbUnmarshal(b, p.c, st)
		return Iface{}
	}
	intrinsics["google.golang.org/protobuf/proto.Unmarshal"] = func(in *Interp, c *callCtx) Value {
		return pbEntry(in, c, c.args[0], c.args[1], false)
	}
	// proto.UnmarshalOptions{...}.Unmarshal: only the Merge option changes what is modelled
	intrinsics["(google.golang.org/protobuf/proto.UnmarshalOptions).Unmarshal"] = func(in *Interp, c *callCtx) Value {
		merge := false
		if ov, ok := c.args[0].(StructV); ok {
			if st, ok := c.fn.Signature.Recv().Type().Underlying().(*types.Struct); ok {
				for i := 0; i < st.NumFields(); i++ {
					if st.Field(i).Name() == "Merge" {
						if t, ok := ov.f[i].(*Term); ok && t.IsConst() {
							merge = t.BoolVal()
						} else {
							in.unsupported("proto.UnmarshalOptions with a symbolic Merge option")
						}
					}
				}
			}
		}
		return pbEntry(in, c, c.args[1], c.args[2], merge)
	}
}
