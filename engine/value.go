package main

// Run-time values and memory of the symbolic executor.

import (
	"fmt"
	"go/types"
	"strings"

	"golang.org/x/tools/go/ssa"
)

type Value interface{}

// Str is a Go string: either concrete, or a fixed-length sequence of byte terms.
type Str struct {
	s    string
	sym  []*Term // non-nil => symbolic bytes (len(sym) is the length)
	rope []piece // non-nil => formatted rope (see fmt.go); length unknown
}

func (s Str) Len() int {
	if s.rope != nil {
		panic(pathEnd{kind: "unsupported", msg: "length/indexing of a symbolic formatted string (rope)"})
	}
	if s.sym != nil {
		return len(s.sym)
	}
	return len(s.s)
}

func (s Str) Concrete() (string, bool) {
	if s.rope != nil {
		return "", false
	}
	if s.sym == nil {
		return s.s, true
	}
	b := make([]byte, len(s.sym))
	for i, t := range s.sym {
		if !t.IsConst() {
			return "", false
		}
		b[i] = byte(t.val)
	}
	return string(b), true
}

func (in *Interp) strByte(s Str, i int) *Term {
	if s.sym != nil {
		return s.sym[i]
	}
	return in.tt.Const(8, uint64(s.s[i]))
}

func (in *Interp) strBytes(s Str) []*Term {
	if s.sym != nil {
		return s.sym
	}
	r := make([]*Term, len(s.s))
	for i := range r {
		r[i] = in.tt.Const(8, uint64(s.s[i]))
	}
	return r
}

func (in *Interp) mkStr(b []*Term) Str {
	all := true
	for _, t := range b {
		if !t.IsConst() {
			all = false
			break
		}
	}
	if all {
		bs := make([]byte, len(b))
		for i, t := range b {
			bs[i] = byte(t.val)
		}
		return Str{s: string(bs)}
	}
	if b == nil {
		b = []*Term{}
	}
	return Str{sym: b}
}

// Cell is a memory location: a leaf holding a Value or an aggregate of cells.
type Cell struct {
	id  int
	v   Value
	sub []*Cell
	agg uint8 // 0 leaf, 1 struct, 2 array
	typ types.Type
	big map[int]*Cell // sparse element cells for very large arrays (len in bigN)
	bigN int
	// happens-before race metadata (only maintained when race checking is on)
	wG, wC  int
	wSite   string
	reads   map[int]int
	rSites  map[int]string
	syncClk []int // for sync objects (mutex, atomics, chans use their own)
}

type Ptr struct{ c *Cell }

type StructV struct{ f []Value }
type ArrayV struct{ e []Value }
type Tuple []Value

type SliceV struct {
	arr           *Cell // array cell; nil => nil slice
	off, len, cap int
}

type MapObj struct {
	id   int
	keys []Value
	vals []Value
	kt   types.Type
	vt   types.Type
	cell *Cell // race tracking proxy
}
type MapV struct{ m *MapObj }

type Iface struct {
	t types.Type
	v Value
}

type Closure struct {
	fn *ssa.Function
	fv []Value
}

type BuiltinV struct{ b *ssa.Builtin }

type waitOp struct {
	ch   *Chan
	send bool
	val  Value
	idx  int // select case index, or -1 for plain op
}

type Chan struct {
	id     int
	cap    int
	buf    []Value
	bufClk [][]int
	closed bool
	et     types.Type
	clk    []int // release clock of close / last sends (race detector)
	recvClk [][]int
}

type mapIter struct {
	m     *MapObj
	keys  []Value
	vals  []Value
	pos   int
	str   *Str
	spos  int
	anyOrder bool
}

func isNilValue(v Value) bool {
	switch x := v.(type) {
	case nil:
		return true
	case Ptr:
		return x.c == nil
	case SliceV:
		return x.arr == nil
	case MapV:
		return x.m == nil
	case *Chan:
		return x == nil
	case *Closure:
		return x == nil
	case Iface:
		return x.t == nil
	}
	return false
}

func intWidth(b *types.Basic) (int, bool) {
	switch b.Kind() {
	case types.Int8:
		return 8, true
	case types.Int16:
		return 16, true
	case types.Int32:
		return 32, true
	case types.Int64, types.Int, types.UntypedInt, types.UntypedRune:
		return 64, true
	case types.Uint8:
		return 8, false
	case types.Uint16:
		return 16, false
	case types.Uint32:
		return 32, false
	case types.Uint64, types.Uint, types.Uintptr:
		return 64, false
	}
	return 0, false
}

func isInt(t types.Type) (int, bool, bool) {
	if b, ok := t.Underlying().(*types.Basic); ok && b.Info()&types.IsInteger != 0 {
		w, s := intWidth(b)
		if b.Kind() == types.UntypedRune {
			w = 32
		}
		return w, s, true
	}
	return 0, false, false
}

func isFloat(t types.Type) (int, bool) {
	if b, ok := t.Underlying().(*types.Basic); ok {
		switch b.Kind() {
		case types.Float32:
			return 32, true
		case types.Float64, types.UntypedFloat:
			return 64, true
		}
	}
	return 0, false
}

func isString(t types.Type) bool {
	b, ok := t.Underlying().(*types.Basic)
	return ok && b.Info()&types.IsString != 0
}

func isBool(t types.Type) bool {
	b, ok := t.Underlying().(*types.Basic)
	return ok && b.Info()&types.IsBoolean != 0
}

func (in *Interp) zero(t types.Type) Value {
	if a, ok := t.Underlying().(*types.Array); ok && a.Len() > 1<<12 {
		in.unsupported("by-value array of %d elements", a.Len())
	}
	switch u := t.Underlying().(type) {
	case *types.Basic:
		if w, _, ok := isInt(u); ok {
			return in.tt.Const(w, 0)
		}
		if w, ok := isFloat(u); ok {
			return in.tt.fconst(w, 0)
		}
		if isBool(u) {
			return in.tt.False
		}
		if isString(u) {
			return Str{}
		}
		if u.Kind() == types.UnsafePointer {
			return Ptr{}
		}
		if u.Kind() == types.UntypedNil {
			return nil
		}
		panic(pathEnd{kind: "unsupported", msg: "zero of basic " + u.String()})
	case *types.Pointer:
		return Ptr{}
	case *types.Slice:
		return SliceV{}
	case *types.Map:
		return MapV{}
	case *types.Chan:
		return (*Chan)(nil)
	case *types.Signature:
		return (*Closure)(nil)
	case *types.Interface:
		return Iface{}
	case *types.Struct:
		f := make([]Value, u.NumFields())
		for i := range f {
			f[i] = in.zero(u.Field(i).Type())
		}
		return StructV{f}
	case *types.Array:
		e := make([]Value, u.Len())
		for i := range e {
			e[i] = in.zero(u.Elem())
		}
		return ArrayV{e}
	case *types.Tuple:
		tp := make(Tuple, u.Len())
		for i := range tp {
			tp[i] = in.zero(u.At(i).Type())
		}
		return tp
	case *types.TypeParam:
		panic(pathEnd{kind: "unsupported", msg: "zero of type parameter"})
	}
	panic(pathEnd{kind: "unsupported", msg: "zero of " + t.String()})
}

func (in *Interp) newCell(t types.Type) *Cell {
	in.allocs++
	c := &Cell{id: in.allocs, typ: t}
	switch u := t.Underlying().(type) {
	case *types.Struct:
		c.agg = 1
		c.sub = make([]*Cell, u.NumFields())
		for i := range c.sub {
			c.sub[i] = in.newCell(u.Field(i).Type())
		}
	case *types.Array:
		c.agg = 2
		n := int(u.Len())
		if n > 1<<12 {
			// large arrays: element cells are created on first touch
			c.typ = u.Elem()
			if n > 1<<16 {
				c.big = map[int]*Cell{}
				c.bigN = n
			} else {
				c.sub = make([]*Cell, n)
			}
			return c
		}
		c.sub = make([]*Cell, n)
		for i := range c.sub {
			c.sub[i] = in.newCell(u.Elem())
		}
	default:
		c.v = in.zero(t)
	}
	return c
}

// newArray allocates an array cell of n elements of type et.
func (in *Interp) newArray(et types.Type, n int) *Cell {
	in.allocs++
	c := &Cell{id: in.allocs, agg: 2, typ: et}
	// element cells are created on first touch (slices made with a large capacity)
	if n > 1<<16 {
		c.big = map[int]*Cell{}
		c.bigN = n
		return c
	}
	c.sub = make([]*Cell, n)
	return c
}

// elem returns the i-th element cell of an array cell, creating it lazily.
func (in *Interp) elem(arr *Cell, i int) *Cell {
	if arr.big != nil {
		c := arr.big[i]
		if c == nil {
			if i < 0 || i >= arr.bigN {
				panic("sparse array index out of range")
			}
			c = in.newCell(arr.typ)
			arr.big[i] = c
		}
		return c
	}
	c := arr.sub[i]
	if c == nil {
		c = in.newCell(arr.typ)
		arr.sub[i] = c
	}
	return c
}

func arrLen(c *Cell) int {
	if c.big != nil {
		return c.bigN
	}
	return len(c.sub)
}

func (in *Interp) load(c *Cell) Value {
	if c.big != nil {
		in.unsupported("load of a whole large array")
	}
	switch c.agg {
	case 0:
		in.raceRead(c)
		return c.v
	case 1:
		f := make([]Value, len(c.sub))
		for i, s := range c.sub {
			f[i] = in.load(s)
		}
		return StructV{f}
	default:
		e := make([]Value, len(c.sub))
		for i := range c.sub {
			e[i] = in.load(in.elem(c, i))
		}
		return ArrayV{e}
	}
}

func (in *Interp) store(c *Cell, v Value) {
	switch c.agg {
	case 0:
		in.raceWrite(c)
		c.v = v
	case 1:
		sv, ok := v.(StructV)
		if !ok || len(sv.f) != len(c.sub) {
			panic(fmt.Sprintf("store: struct shape mismatch %T into %v", v, c.typ))
		}
		for i, s := range c.sub {
			in.store(s, sv.f[i])
		}
	default:
		av, ok := v.(ArrayV)
		if !ok || len(av.e) != len(c.sub) {
			panic(fmt.Sprintf("store: array shape mismatch %T", v))
		}
		for i := range c.sub {
			in.store(in.elem(c, i), av.e[i])
		}
	}
}

// eqVal builds the equality of two values of static type t.
func (in *Interp) eqVal(a, b Value) *Term {
	tt := in.tt
	switch x := a.(type) {
	case nil:
		return tt.Bool(isNilValue(b))
	case *Term:
		y, ok := b.(*Term)
		if !ok {
			panic(fmt.Sprintf("eqVal: %T vs %T", a, b))
		}
		if x.sort.K == KFP {
			return tt.FCmp(OpFEq, x, y)
		}
		return tt.Eq(x, y)
	case Str:
		return in.strEq(x, b.(Str))
	case Ptr:
		if b == nil {
			return tt.Bool(x.c == nil)
		}
		return tt.Bool(x.c == b.(Ptr).c)
	case StructV:
		y := b.(StructV)
		r := tt.True
		for i := range x.f {
			r = tt.And(r, in.eqVal(x.f[i], y.f[i]))
		}
		return r
	case ArrayV:
		y := b.(ArrayV)
		r := tt.True
		for i := range x.e {
			r = tt.And(r, in.eqVal(x.e[i], y.e[i]))
		}
		return r
	case Iface:
		if b == nil {
			return tt.Bool(x.t == nil)
		}
		y := b.(Iface)
		if x.t == nil || y.t == nil {
			return tt.Bool(x.t == nil && y.t == nil)
		}
		if !types.Identical(x.t, y.t) {
			return tt.False
		}
		if !types.Comparable(x.t) {
			panic(pathEnd{kind: "panic", msg: "runtime error: comparing uncomparable type " + x.t.String()})
		}
		return in.eqVal(x.v, y.v)
	case *Chan:
		if b == nil {
			return tt.Bool(x == nil)
		}
		return tt.Bool(x == b.(*Chan))
	case SliceV:
		if isNilValue(b) {
			return tt.Bool(x.arr == nil)
		}
		if y, ok := b.(SliceV); ok && y.arr == nil {
			return tt.Bool(x.arr == nil)
		}
		panic("eqVal: slice compared to non-nil")
	case MapV:
		if isNilValue(b) {
			return tt.Bool(x.m == nil)
		}
		panic("eqVal: map compared to non-nil")
	case *Closure:
		if isNilValue(b) {
			return tt.Bool(x == nil)
		}
		if x == nil {
			return tt.Bool(isNilValue(b))
		}
		panic("eqVal: func compared to non-nil")
	}
	panic(fmt.Sprintf("eqVal: unhandled %T", a))
}

func (in *Interp) strEq(a, b Str) *Term {
	tt := in.tt
	if a.rope != nil || b.rope != nil {
		return in.ropeEq(a, b)
	}
	if a.Len() != b.Len() {
		return tt.False
	}
	if a.sym == nil && b.sym == nil {
		return tt.Bool(a.s == b.s)
	}
	r := tt.True
	for i := 0; i < a.Len(); i++ {
		r = tt.And(r, tt.Eq(in.strByte(a, i), in.strByte(b, i)))
		if r == tt.False {
			return r
		}
	}
	return r
}

// strLess builds a < b (lexicographic, bytewise) as one term.
func (in *Interp) strLess(a, b Str) *Term {
	tt := in.tt
	if a.sym == nil && b.sym == nil {
		return tt.Bool(a.s < b.s)
	}
	n := a.Len()
	if b.Len() < n {
		n = b.Len()
	}
	// result from the back: less_i = a[i]<b[i] || (a[i]==b[i] && less_{i+1})
	r := tt.Bool(a.Len() < b.Len())
	for i := n - 1; i >= 0; i-- {
		x, y := in.strByte(a, i), in.strByte(b, i)
		r = tt.Or(tt.Cmp(OpUlt, x, y), tt.And(tt.Eq(x, y), r))
	}
	return r
}

func (in *Interp) concat(a, b Str) Str {
	if a.rope != nil || b.rope != nil {
		return in.mkRope(append(append([]piece{}, in.strToPieces(a)...), in.strToPieces(b)...))
	}
	if a.sym == nil && b.sym == nil {
		return Str{s: a.s + b.s}
	}
	if a.Len() == 0 {
		return b
	}
	if b.Len() == 0 {
		return a
	}
	r := append(append([]*Term{}, in.strBytes(a)...), in.strBytes(b)...)
	return in.mkStr(r)
}

// describe renders a value for samples/diagnostics.
func (in *Interp) describe(v Value, depth int) string {
	if depth > 4 {
		return "…"
	}
	switch x := v.(type) {
	case nil:
		return "nil"
	case *Term:
		if x.IsConst() {
			switch x.sort.K {
			case KBool:
				return fmt.Sprint(x.BoolVal())
			case KBV:
				return fmt.Sprint(x.I64())
			default:
				return fmt.Sprint(x.F64())
			}
		}
		return "<sym>"
	case Str:
		if s, ok := x.Concrete(); ok {
			return fmt.Sprintf("%q", s)
		}
		if x.rope != nil {
			return "<rope>"
		}
		return fmt.Sprintf("<symstr len %d>", x.Len())
	case Ptr:
		if x.c == nil {
			return "nil"
		}
		return "&" + in.describe(in.loadQuiet(x.c), depth+1)
	case StructV:
		var parts []string
		for _, f := range x.f {
			parts = append(parts, in.describe(f, depth+1))
		}
		return "{" + strings.Join(parts, " ") + "}"
	case ArrayV:
		var parts []string
		for _, f := range x.e {
			parts = append(parts, in.describe(f, depth+1))
		}
		return "[" + strings.Join(parts, " ") + "]"
	case SliceV:
		if x.arr == nil {
			return "[]"
		}
		var parts []string
		for i := 0; i < x.len && i < 8; i++ {
			parts = append(parts, in.describe(in.loadQuiet(in.elem(x.arr, x.off+i)), depth+1))
		}
		return "[" + strings.Join(parts, " ") + "]"
	case Iface:
		if x.t == nil {
			return "nil"
		}
		return x.t.String() + ":" + in.describe(x.v, depth+1)
	case MapV:
		return "map"
	case *Closure:
		return "func"
	case *Chan:
		return "chan"
	case Tuple:
		var parts []string
		for _, f := range x {
			parts = append(parts, in.describe(f, depth+1))
		}
		return "(" + strings.Join(parts, ", ") + ")"
	}
	return fmt.Sprintf("%T", v)
}

func (in *Interp) loadQuiet(c *Cell) Value {
	save := in.raceOn
	in.raceOn = false
	v := in.load(c)
	in.raceOn = save
	return v
}
