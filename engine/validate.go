package main

// Validation of the encoding against the real build.
//
// For a sample of the paths on which every assertion was proven, the solver's model of
// the path condition is turned into concrete inputs and the same harness is run
// natively against /repo's current tree (one test binary per package, built once per
// check run). The native run has to end "ok" too and, when the path involved a single
// goroutine and no schedule / map-order / sort-permutation choice, has to execute the
// same assertion labels the same number of times and reach the same vReach labels.
// This is not how a property is decided (the solver's verdict over the whole path
// condition is); it is a check of the translator in the spirit of running existing
// tests through a symbolic interpreter: a disagreement means the SSA executor or a
// stub does not represent the code, so the run ends as a machinery error (exit 2,
// no VIOLATION line) instead of "held".

import (
	"encoding/json"
	"fmt"
	"os"
	"os/exec"
	"path/filepath"
	"regexp"
	"sort"
	"strings"
	"time"
)

type sampleBinary struct {
	path string
	dir  string
	err  string
}

type ValidationReport struct {
	Sampled      int      `json:"ok_paths_sampled"`
	Agreed       int      `json:"native_agreed"`
	TraceChecked int      `json:"trace_compared"`
	Disagreed    []string `json:"disagreements,omitempty"`
	Warnings     []string `json:"warnings,omitempty"`
	Skipped      string   `json:"skipped,omitempty"`
	WallS        float64  `json:"wall_s"`
}

// buildSampleBinary compiles the package's tests with the harness overlay plus a
// dispatcher test.
func buildSampleBinary(root, pkg string, harnessFuncs []string, files map[string]string) *sampleBinary {
	dir := filepath.Join(root, "_validate_"+dirKey(pkg))
	os.RemoveAll(dir)
	os.MkdirAll(dir, 0755)
	sb := &sampleBinary{dir: dir}
	pkgName := "osm"
	for virt, real := range files {
		if filepath.Dir(virt) == filepath.Join(repoDir, pkg) && strings.HasSuffix(virt, "zz_verif_rt.go") {
			b, _ := os.ReadFile(real)
			if m := regexp.MustCompile(`(?m)^package (\w+)`).FindSubmatch(b); m != nil {
				pkgName = string(m[1])
			}
		}
	}
	sort.Strings(harnessFuncs)
	var sbuf strings.Builder
	fmt.Fprintf(&sbuf, "//go:build verif\n\npackage %s\n\nimport (\n\t\"os\"\n\t\"testing\"\n)\n\nfunc TestVerifSample(t *testing.T) {\n\th := map[string]func(){\n", pkgName)
	seen := map[string]bool{}
	for _, f := range harnessFuncs {
		if !seen[f] {
			seen[f] = true
			fmt.Fprintf(&sbuf, "\t\t%q: %s,\n", f, f)
		}
	}
	sbuf.WriteString("\t}[os.Getenv(\"VERIF_HARNESS\")]\n\tif h == nil {\n\t\tt.Fatal(\"unknown harness\")\n\t}\n\tvReplayMain(h)\n}\n")
	testFile := filepath.Join(dir, "zz_verif_sample_test.go")
	os.WriteFile(testFile, []byte(sbuf.String()), 0644)
	repl := map[string]string{}
	for virt, real := range files {
		repl[virt] = real
	}
	repl[filepath.Join(repoDir, pkg, "zz_verif_sample_test.go")] = testFile
	ob, _ := json.MarshalIndent(map[string]any{"Replace": repl}, "", " ")
	ovFile := filepath.Join(dir, "overlay.json")
	os.WriteFile(ovFile, ob, 0644)
	pkgArg := "./" + pkg
	if pkg == "" {
		pkgArg = "."
	}
	bin := filepath.Join(dir, "sample.test")
	cmd := exec.Command("go", "test", "-c", "-tags", "verif", "-vet=off", "-overlay", ovFile, "-o", bin, pkgArg)
	cmd.Dir = repoDir
	cmd.Env = append(os.Environ(), "GOFLAGS=-mod=mod", "GOPROXY=off", "GOSUMDB=off", "GOTOOLCHAIN=local")
	out, err := cmd.CombinedOutput()
	if err != nil {
		sb.err = firstLine(string(out)) + " (" + err.Error() + ")"
		return sb
	}
	sb.path = bin
	return sb
}

type nativeTrace struct {
	Asserts map[string]int `json:"asserts"`
	Reached map[string]int `json:"reached"`
}

func runSample(sb *sampleBinary, pkg, fn string, vals map[string]uint64, params map[string]int, idx int) (string, *nativeTrace, string) {
	vf := filepath.Join(sb.dir, fmt.Sprintf("values_%s_%d.json", fn, idx))
	vb, _ := json.Marshal(map[string]any{"values": vals})
	os.WriteFile(vf, vb, 0644)
	cmd := exec.Command(sb.path, "-test.run", "^TestVerifSample$", "-test.v", "-test.count=1", "-test.timeout=120s")
	cmd.Dir = filepath.Join(repoDir, pkg)
	cmd.Env = append(os.Environ(), "VERIF_VALUES="+vf, "VERIF_HARNESS="+fn)
	for k, v := range params {
		cmd.Env = append(cmd.Env, fmt.Sprintf("VERIF_PARAM_%s=%d", k, v))
	}
	out, _ := cmd.CombinedOutput()
	s := string(out)
	outcome := "none"
	var tr *nativeTrace
	for _, line := range strings.Split(s, "\n") {
		if strings.HasPrefix(line, "VERIF-OUTCOME ") {
			outcome = strings.TrimPrefix(line, "VERIF-OUTCOME ")
		}
		if strings.HasPrefix(line, "VERIF-TRACE ") {
			var t nativeTrace
			if json.Unmarshal([]byte(strings.TrimPrefix(line, "VERIF-TRACE ")), &t) == nil {
				tr = &t
			}
		}
	}
	return outcome, tr, s
}

func traceDiff(s *OkSample, t *nativeTrace) string {
	if t == nil {
		return "no native trace"
	}
	var d []string
	// labels starting with "~" are assertions over details an environment stub abstracts
	// away (e.g. attributes written by encoding/xml's reflection): they run natively only
	for l := range t.Asserts {
		if strings.HasPrefix(l, "~") {
			delete(t.Asserts, l)
		}
	}
	for l, n := range s.Asserts {
		if strings.HasPrefix(l, "~") {
			continue
		}
		if t.Asserts[l] != n {
			d = append(d, fmt.Sprintf("assert %s: executor %d, native %d", l, n, t.Asserts[l]))
		}
	}
	for l, n := range t.Asserts {
		if _, ok := s.Asserts[l]; !ok {
			d = append(d, fmt.Sprintf("assert %s: executor 0, native %d", l, n))
		}
	}
	for _, l := range s.Reached {
		if t.Reached[l] == 0 {
			d = append(d, "label "+l+" reached by the executor only")
		}
	}
	for l := range t.Reached {
		found := false
		for _, x := range s.Reached {
			if x == l {
				found = true
			}
		}
		if !found {
			d = append(d, "label "+l+" reached natively only")
		}
	}
	sort.Strings(d)
	return strings.Join(d, "; ")
}

// validateSamples replays the ok-path samples of one harness.
func validateSamples(sb *sampleBinary, h HarnessEntry, params map[string]int, samples []*OkSample) *ValidationReport {
	st := time.Now()
	rep := &ValidationReport{Sampled: len(samples)}
	defer func() { rep.WallS = time.Since(st).Seconds() }()
	if sb.err != "" {
		rep.Skipped = "native test binary did not build: " + sb.err
		return rep
	}
	for i, s := range samples {
		var outcome, diff string
		var tr *nativeTrace
		agreed := false
		for attempt := 0; attempt < 2 && !agreed; attempt++ {
			outcome, tr, _ = runSample(sb, h.Pkg, h.Func, s.Values, params, i)
			diff = ""
			if outcome == "ok" {
				if s.Deterministic {
					diff = traceDiff(s, tr)
				}
				agreed = diff == ""
			}
		}
		if agreed {
			rep.Agreed++
			if s.Deterministic {
				rep.TraceChecked++
			}
			continue
		}
		msg := fmt.Sprintf("%s ok-path #%d: native outcome %q", h.Name, s.OkIndex, firstLine(outcome))
		if diff != "" {
			msg += " trace: " + diff
		}
		// keep the inputs so that the disagreement can be looked at
		keep := filepath.Join(filepath.Dir(sb.dir), fmt.Sprintf("disagreement_%s_%d.json", h.Name, s.OkIndex))
		vb, _ := json.MarshalIndent(map[string]any{"values": s.Values, "harness": h.Name, "func": h.Func, "executor": s, "native_outcome": outcome, "native_trace": tr, "params": params}, "", " ")
		os.WriteFile(keep, vb, 0644)
		msg += " (inputs: " + keep + ")"
		if s.Deterministic {
			rep.Disagreed = append(rep.Disagreed, msg)
		} else {
			// goroutines / schedule choices: the native scheduler need not take the executor's path
			rep.Warnings = append(rep.Warnings, msg)
		}
	}
	return rep
}
