package main

// symgo: solver-based bounded checking of paulmach/osm properties.
//   symgo check --prop C10 --tier quick|thorough [--harness name] [--jobs N]

import (
	"encoding/json"
	"flag"
	"fmt"
	"os"
	"os/exec"
	"path/filepath"
	"regexp"
	"runtime"
	"sort"
	"strconv"
	"strings"
	"time"

	"golang.org/x/tools/go/packages"
	"golang.org/x/tools/go/ssa"
	"golang.org/x/tools/go/ssa/ssautil"
)

const modPath = "github.com/paulmach/osm"

// verifDir is /verif; SYMGO_VERIF points at a snapshot of harness/, spec/ and
// known_findings.json when seeded mutations are run in bulk while /verif is being edited
// (never used by the registered commands).
var verifDir = func() string {
	if d := os.Getenv("SYMGO_VERIF"); d != "" {
		return d
	}
	return "/verif"
}()

// repoDir is /repo; SYMGO_REPO points the checks at a scratch worktree when they are
// run against seeded mutations (never used by the registered commands).
var repoDir = func() string {
	if d := os.Getenv("SYMGO_REPO"); d != "" {
		return d
	}
	return "/repo"
}()

var replayRoot = func() string {
	if d := os.Getenv("SYMGO_REPLAYS"); d != "" {
		return d
	}
	return filepath.Join(verifDir, "replays")
}()

type HarnessEntry struct {
	Name     string      `json:"name"`
	Pkg      string      `json:"pkg"` // directory relative to repo root ("" = root)
	Func     string      `json:"func"`
	Quick    *HarnessCfg `json:"quick"`
	Thorough *HarnessCfg `json:"thorough"`
	Note     string      `json:"note"`
	Expect   string      `json:"expect"` // "" | "reach-violation" (vacuity witness twin)
	ReplayCount int      `json:"replay_count"` // native replays of a schedule-dependent counterexample (real scheduler picks select cases at random)
}

type PropConfig struct {
	Property    string         `json:"property"`
	Explanation string         `json:"explanation"`
	Assumptions []string       `json:"assumptions"`
	Bounds      map[string]any `json:"bounds"`
	Outside     []string       `json:"outside"`
	Harnesses   []HarnessEntry `json:"harnesses"`
}

type KnownFinding struct {
	Property    string `json:"property"`
	Fingerprint string `json:"fingerprint"`
	What        string `json:"what"`
	Fixed       bool   `json:"fixed,omitempty"`
	Commit      string `json:"commit,omitempty"`
}

func pkgImportPath(dir string) string {
	if dir == "" || dir == "." {
		return modPath
	}
	return modPath + "/" + dir
}

// buildOverlay maps harness files into the repo tree (virtual paths).
func buildOverlay(pkgDirs []string) (map[string][]byte, map[string]string, error) {
	ov := map[string][]byte{}
	files := map[string]string{} // virtual -> real (for go test -overlay)
	tmpl, err := os.ReadFile(filepath.Join(verifDir, "harness/rt/zz_verif_rt.go.tmpl"))
	if err != nil {
		return nil, nil, err
	}
	gen := filepath.Join(verifDir, ".gen")
	os.MkdirAll(gen, 0755)
	for _, d := range pkgDirs {
		hdir := filepath.Join(verifDir, "harness", dirKey(d))
		ents, err := os.ReadDir(hdir)
		if err != nil {
			return nil, nil, fmt.Errorf("harness dir %s: %v", hdir, err)
		}
		pkgName := ""
		for _, e := range ents {
			if !strings.HasSuffix(e.Name(), ".go") {
				continue
			}
			b, err := os.ReadFile(filepath.Join(hdir, e.Name()))
			if err != nil {
				return nil, nil, err
			}
			virt := filepath.Join(repoDir, d, e.Name())
			ov[virt] = b
			files[virt] = filepath.Join(hdir, e.Name())
			if m := regexp.MustCompile(`(?m)^package (\w+)`).FindSubmatch(b); m != nil && !strings.HasSuffix(e.Name(), "_test.go") {
				pkgName = string(m[1])
			}
		}
		if pkgName == "" {
			return nil, nil, fmt.Errorf("no harness package name in %s", hdir)
		}
		rt := []byte(strings.Replace(string(tmpl), "PKGNAME", pkgName, 1))
		virt := filepath.Join(repoDir, d, "zz_verif_rt.go")
		ov[virt] = rt
		real := filepath.Join(gen, dirKey(d)+"_zz_verif_rt.go")
		os.WriteFile(real, rt, 0644)
		files[virt] = real
	}
	return ov, files, nil
}

func dirKey(d string) string {
	if d == "" || d == "." {
		return "root"
	}
	return strings.ReplaceAll(d, "/", "_")
}

func loadProgram(pkgDirs []string, ov map[string][]byte) (*ssa.Program, map[string]*ssa.Package, error) {
	cfg := &packages.Config{
		Mode:       packages.LoadAllSyntax,
		Dir:        repoDir,
		BuildFlags: []string{"-tags=verif"},
		Overlay:    ov,
		Env:        append(os.Environ(), "GOFLAGS=-mod=mod", "GOPROXY=off", "GOSUMDB=off", "GOTOOLCHAIN=local"),
	}
	var pats []string
	for _, d := range pkgDirs {
		pats = append(pats, pkgImportPath(d))
	}
	pkgs, err := packages.Load(cfg, pats...)
	if err != nil {
		return nil, nil, err
	}
	nerr := 0
	packages.Visit(pkgs, nil, func(p *packages.Package) {
		for _, e := range p.Errors {
			fmt.Fprintln(os.Stderr, "load error:", e)
			nerr++
		}
	})
	if nerr > 0 {
		return nil, nil, fmt.Errorf("%d package load errors", nerr)
	}
	prog, spkgs := ssautil.AllPackages(pkgs, ssa.InstantiateGenerics)
	prog.Build()
	m := map[string]*ssa.Package{}
	for i, p := range pkgs {
		m[p.PkgPath] = spkgs[i]
	}
	return prog, m, nil
}

type HarnessReport struct {
	Name       string         `json:"name"`
	Func       string         `json:"func"`
	Cfg        *HarnessCfg    `json:"bounds"`
	Paths      int            `json:"paths"`
	Outcomes   map[string]int `json:"outcomes"`
	NotDecided map[string]int `json:"not_decided,omitempty"`
	Asserts    map[string]int `json:"assertions_checked"`
	Reached    map[string]int `json:"labels_reached"`
	Queries    map[string]int `json:"queries"`
	SolverS    float64        `json:"solver_time_s"`
	WallS      float64        `json:"wall_s"`
	Decisions  int            `json:"decisions"`
	Steps      int            `json:"ssa_steps"`
	Truncated  bool           `json:"truncated,omitempty"`
	Candidates int            `json:"counterexample_candidates"`
	Confirmed  int            `json:"confirmed"`
	Unconfirmed []string      `json:"unconfirmed,omitempty"`
	Known      []string       `json:"known_findings,omitempty"`
	Vacuity    string         `json:"vacuity,omitempty"`
	Samples    []PathResult   `json:"-"`
	Validation *ValidationReport `json:"encoding_validation,omitempty"`
}

type violation struct {
	fingerprint string
	replay      string
	detail      string
}

func main() {
	if len(os.Args) < 2 {
		fmt.Fprintln(os.Stderr, "usage: symgo check --prop Cxx [--tier quick|thorough]")
		os.Exit(2)
	}
	switch os.Args[1] {
	case "check":
		os.Exit(cmdCheck(os.Args[2:]))
	case "native":
		os.Exit(cmdNative(os.Args[2:]))
	default:
		fmt.Fprintln(os.Stderr, "unknown command", os.Args[1])
		os.Exit(2)
	}
}

func cmdCheck(args []string) int {
	fs := flag.NewFlagSet("check", flag.ExitOnError)
	prop := fs.String("prop", "", "property id")
	tier := fs.String("tier", "", "quick|thorough")
	only := fs.String("harness", "", "run only this harness")
	jobs := fs.Int("jobs", 0, "worker count")
	noReplay := fs.Bool("no-replay", false, "do not replay counterexamples natively (debug)")
	noValidate := fs.Bool("no-validate", false, "do not replay ok-path samples natively (debug)")
	verbose := fs.Bool("v", false, "verbose")
	maxPaths := fs.Int("max-paths", 0, "stop each harness after this many paths (debug; result is then truncated)")
	fs.Parse(args)
	if *tier == "" {
		*tier = os.Getenv("VERIF_TIER")
	}
	if *tier == "" {
		*tier = "quick"
	}
	if *jobs == 0 {
		*jobs = runtime.NumCPU()
		if *jobs > 16 {
			*jobs = 16
		}
	}
	seed, _ := strconv.Atoi(os.Getenv("VERIF_SEED"))
	start := time.Now()

	var pc PropConfig
	b, err := os.ReadFile(filepath.Join(verifDir, "harness/config", *prop+".json"))
	if err != nil {
		fmt.Fprintln(os.Stderr, err)
		return 2
	}
	if err := json.Unmarshal(b, &pc); err != nil {
		fmt.Fprintln(os.Stderr, "config:", err)
		return 2
	}
	known := loadKnown()

	dirSet := map[string]bool{}
	var dirs []string
	for _, h := range pc.Harnesses {
		if !dirSet[h.Pkg] {
			dirSet[h.Pkg] = true
			dirs = append(dirs, h.Pkg)
		}
	}
	ov, files, err := buildOverlay(dirs)
	if err != nil {
		fmt.Fprintln(os.Stderr, err)
		return 2
	}
	prog, pkgs, err := loadProgram(dirs, ov)
	if err != nil {
		fmt.Fprintln(os.Stderr, "cannot load /repo:", err)
		return 2
	}
	loadS := time.Since(start).Seconds()

	sampleBins := map[string]*sampleBinary{}
	defer func() {
		for _, sb := range sampleBins {
			os.RemoveAll(sb.dir)
		}
	}()
	var reports []*HarnessReport
	var viols []violation
	var knownPrinted []string
	funcs := map[string]int{}
	stubs := map[string]int{}
	total := SolverStats{}
	notDecidedAll := map[string]int{}
	machineryErr := false

	for _, h := range pc.Harnesses {
		if *only != "" && h.Name != *only {
			continue
		}
		cfg := h.Quick
		if *tier == "thorough" && h.Thorough != nil {
			cfg = h.Thorough
		}
		if cfg == nil {
			cfg = &HarnessCfg{}
		}
		c := *cfg
		c.Name, c.Func, c.Pkg = h.Name, h.Func, h.Pkg
		c.defaults()
		if *maxPaths > 0 {
			c.MaxPaths = *maxPaths
		}
		sp := pkgs[pkgImportPath(h.Pkg)]
		if sp == nil {
			fmt.Fprintln(os.Stderr, "package not loaded:", h.Pkg)
			return 2
		}
		fn := sp.Func(h.Func)
		if fn == nil {
			fmt.Fprintf(os.Stderr, "harness function %s not found in %s\n", h.Func, h.Pkg)
			return 2
		}
		hs := time.Now()
		ex := NewExplorer(prog, fn, &c)
		ex.Run(*jobs)
		rep := &HarnessReport{Name: h.Name, Func: h.Func, Cfg: &c, Paths: ex.paths, Outcomes: ex.outcomes,
			NotDecided: ex.notDecided, Asserts: ex.asserts, Reached: ex.reached,
			Queries: map[string]int{"sat": ex.stats.Sat, "unsat": ex.stats.Unsat, "unknown": ex.stats.Unknown, "error": ex.stats.Errors},
			SolverS: ex.stats.Time.Seconds(), WallS: time.Since(hs).Seconds(), Decisions: ex.decisions, Steps: ex.totalSteps,
			Truncated: ex.truncated, Candidates: len(ex.cexs), Samples: ex.samples}
		for k, v := range ex.funcsHit {
			funcs[k] += v
		}
		for k, v := range ex.stubsHit {
			stubs[k] += v
		}
		for k, v := range ex.notDecided {
			notDecidedAll[h.Name+": "+k] += v
		}
		total.Sat += ex.stats.Sat
		total.Unsat += ex.stats.Unsat
		total.Unknown += ex.stats.Unknown
		total.Errors += ex.stats.Errors
		total.Queries += ex.stats.Queries
		total.Time += ex.stats.Time
		if ex.outcomes["internal"] > 0 {
			machineryErr = true
		}

		// counterexamples: replay, classify
		if h.Expect == "reach-violation" {
			// vacuity witness twin: its assert(false) must be reachable
			if len(ex.cexs) > 0 {
				rep.Vacuity = "witness violated as required"
			} else {
				rep.Vacuity = "VACUOUS: witness assertion unreachable"
				machineryErr = true
			}
			reports = append(reports, rep)
			continue
		}
		seenFp := map[string]bool{}
		for i, cex := range ex.cexs {
			fp := fmt.Sprintf("%s/%s/%s/%s", *prop, h.Name, cex.Kind, cex.Label)
			if cex.Kind == "unknown" {
				notDecidedAll[h.Name+": solver unknown on assertion "+cex.Label]++
				continue
			}
			if seenFp[fp] {
				continue
			}
			dir := filepath.Join(replayRoot, *prop, fmt.Sprintf("%s-%d", h.Name, i))
			confirmed, out := true, "replay skipped"
			if !*noReplay {
				confirmed, out = replayNative(dir, h, cex, files, c.Params)
			}
			if *verbose {
				fmt.Fprintf(os.Stderr, "cex %s: confirmed=%v\n%s\n", fp, confirmed, out)
			}
			if !confirmed {
				rep.Unconfirmed = append(rep.Unconfirmed, fp+": "+firstLine(out))
				continue
			}
			seenFp[fp] = true
			rep.Confirmed++
			if kf := matchKnown(known, *prop, fp); kf != nil {
				line := fmt.Sprintf("KNOWN-FINDING: property=%s %s", *prop, kf.What)
				fmt.Println(line)
				knownPrinted = append(knownPrinted, fp)
				rep.Known = append(rep.Known, fp)
				continue
			}
			viols = append(viols, violation{fingerprint: fp, replay: dir, detail: cex.Detail})
		}
		if !*noValidate && !*noReplay && len(ex.okSamples) > 0 {
			sb := sampleBins[h.Pkg]
			if sb == nil {
				var fns []string
				for _, hh := range pc.Harnesses {
					if hh.Pkg == h.Pkg {
						fns = append(fns, hh.Func)
					}
				}
				sb = buildSampleBinary(filepath.Join(replayRoot, *prop), h.Pkg, fns, files)
				sampleBins[h.Pkg] = sb
			}
			rep.Validation = validateSamples(sb, h, c.Params, ex.okSamples)
			for _, d := range rep.Validation.Disagreed {
				fmt.Println("ENCODING-DISAGREEMENT: " + d)
				machineryErr = true
			}
			for _, d := range rep.Validation.Warnings {
				fmt.Println("ENCODING-WARNING (schedule-dependent path, no verdict change): " + d)
			}
			if rep.Validation.Skipped != "" {
				fmt.Println("ENCODING-VALIDATION-SKIPPED: " + rep.Validation.Skipped)
			}
		}
		nAsserts := 0
		for _, n := range ex.asserts {
			nAsserts += n
		}
		if ex.outcomes["ok"]+ex.outcomes["assertfail"] == 0 || nAsserts == 0 || len(ex.reached) == 0 {
			rep.Vacuity = "VACUOUS: no path reached the end of the harness / no assertion or vReach label was executed"
			machineryErr = true
		} else {
			rep.Vacuity = fmt.Sprintf("%d labels reached, %d assertion executions", len(ex.reached), nAsserts)
		}
		reports = append(reports, rep)
		if *verbose {
			jb, _ := json.MarshalIndent(rep, "", " ")
			fmt.Fprintln(os.Stderr, string(jb))
		}
	}

	dumpForks()
	// evidence
	writeEvidence(&pc, *tier, seed, reports, funcs, stubs, total, notDecidedAll, viols, knownPrinted, time.Since(start).Seconds(), loadS)

	for _, v := range viols {
		fmt.Printf("VIOLATION property=%s replay=%s\n", *prop, v.replay)
		fmt.Printf("  fingerprint=%s %s\n", v.fingerprint, v.detail)
	}
	for k, n := range notDecidedAll {
		fmt.Printf("NOT-DECIDED: %s (x%d)\n", k, n)
	}
	for _, r := range reports {
		val := ""
		if r.Validation != nil {
			val = fmt.Sprintf(" native-agree=%d/%d", r.Validation.Agreed, r.Validation.Sampled)
		}
		fmt.Printf("harness %-28s paths=%-6d ok=%-6d queries=%-6d cex=%d confirmed=%d unconfirmed=%d wall=%.1fs %s%s\n",
			r.Name, r.Paths, r.Outcomes["ok"], r.Queries["sat"]+r.Queries["unsat"]+r.Queries["unknown"], r.Candidates, r.Confirmed, len(r.Unconfirmed), r.WallS, r.Vacuity, val)
		for _, u := range r.Unconfirmed {
			fmt.Printf("  UNCONFIRMED (no alarm): %s\n", u)
		}
	}
	if len(viols) > 0 {
		return 1
	}
	if machineryErr {
		fmt.Println("MACHINERY-ERROR: internal executor error, vacuous harness or encoding disagreement (no verdict)")
		return 2
	}
	return 0
}

func firstLine(s string) string {
	for _, l := range strings.Split(s, "\n") {
		if strings.HasPrefix(l, "VERIF-OUTCOME") {
			return l
		}
	}
	if i := strings.Index(s, "\n"); i >= 0 {
		return s[:i]
	}
	return s
}

func loadKnown() []KnownFinding {
	var k []KnownFinding
	b, err := os.ReadFile(filepath.Join(verifDir, "known_findings.json"))
	if err != nil {
		return nil
	}
	json.Unmarshal(b, &k)
	return k
}

func matchKnown(k []KnownFinding, prop, fp string) *KnownFinding {
	for i := range k {
		if k[i].Fixed {
			continue
		}
		if k[i].Property == prop && k[i].Fingerprint == fp {
			return &k[i]
		}
	}
	return nil
}

// replayNative runs the harness natively with the model values and reports
// whether the same failure reproduces against the real build.
func replayNative(dir string, h HarnessEntry, cex *Counterexample, files map[string]string, params map[string]int) (bool, string) {
	os.RemoveAll(dir)
	os.MkdirAll(dir, 0755)
	vals := map[string]any{"values": cex.Values, "label": cex.Label, "kind": cex.Kind, "detail": cex.Detail, "harness": h.Name, "func": h.Func, "trace": cex.Trace}
	vb, _ := json.MarshalIndent(vals, "", " ")
	os.WriteFile(filepath.Join(dir, "values.json"), vb, 0644)

	// package name for the test file
	pkgName := "osm"
	for virt, real := range files {
		if filepath.Dir(virt) == filepath.Join(repoDir, h.Pkg) && strings.HasSuffix(virt, "zz_verif_rt.go") {
			b, _ := os.ReadFile(real)
			if m := regexp.MustCompile(`(?m)^package (\w+)`).FindSubmatch(b); m != nil {
				pkgName = string(m[1])
			}
		}
	}
	testSrc := fmt.Sprintf("//go:build verif\n\npackage %s\n\nimport \"testing\"\n\nfunc TestVerifReplay(t *testing.T) { vReplayMain(%s) }\n", pkgName, h.Func)
	testFile := filepath.Join(dir, "zz_verif_replay_test.go")
	os.WriteFile(testFile, []byte(testSrc), 0644)
	repl := map[string]string{}
	for virt, real := range files {
		// copy harness files so the replay directory is self-contained
		dst := filepath.Join(dir, dirKey(strings.TrimPrefix(filepath.Dir(virt), repoDir+"/"))+"__"+filepath.Base(virt))
		if filepath.Dir(virt) == repoDir {
			dst = filepath.Join(dir, "root__"+filepath.Base(virt))
		}
		b, _ := os.ReadFile(real)
		os.WriteFile(dst, b, 0644)
		repl[virt] = dst
	}
	repl[filepath.Join(repoDir, h.Pkg, "zz_verif_replay_test.go")] = testFile
	ob, _ := json.MarshalIndent(map[string]any{"Replace": repl}, "", " ")
	ovFile := filepath.Join(dir, "overlay.json")
	os.WriteFile(ovFile, ob, 0644)
	pkgArg := "./" + h.Pkg
	if h.Pkg == "" {
		pkgArg = "."
	}
	extra := "-count=1 "
	if h.ReplayCount > 1 && cex.Kind != "race" {
		extra = fmt.Sprintf("-count=%d ", h.ReplayCount)
	}
	if cex.Kind == "race" {
		// the Go race detector applies the same happens-before criterion to the real execution
		extra = "-race -count=10 "
	}
	penv := ""
	for k, v := range params {
		penv += fmt.Sprintf("VERIF_PARAM_%s=%d ", k, v)
	}
	script := fmt.Sprintf("#!/bin/sh\n# replays the counterexample against the real build of /repo\ncd "+repoDir+" && "+penv+"GOFLAGS=-mod=mod GOPROXY=off GOSUMDB=off GOTOOLCHAIN=local VERIF_VALUES=%s timeout 300 go test -tags verif -vet=off %s-overlay %s -run '^TestVerifReplay$' -v %s\n",
		filepath.Join(dir, "values.json"), extra, ovFile, pkgArg)
	os.WriteFile(filepath.Join(dir, "run.sh"), []byte(script), 0755)
	cmd := exec.Command("/bin/sh", filepath.Join(dir, "run.sh"))
	out, _ := cmd.CombinedOutput()
	os.WriteFile(filepath.Join(dir, "native_output.txt"), out, 0644)
	s := string(out)
	confirmed := false
	switch cex.Kind {
	case "assert":
		confirmed = strings.Contains(s, "VERIF-OUTCOME assert-failed label="+cex.Label)
	case "panic":
		confirmed = strings.Contains(s, "VERIF-OUTCOME panic") || (strings.Contains(s, "panic:") && strings.Contains(s, "goroutine "))
	case "deadlock":
		confirmed = strings.Contains(s, "VERIF-OUTCOME timeout") || strings.Contains(s, "all goroutines are asleep")
	case "race":
		confirmed = strings.Contains(s, "WARNING: DATA RACE")
	}
	return confirmed, s
}

func writeEvidence(pc *PropConfig, tier string, seed int, reports []*HarnessReport, funcs, stubs map[string]int,
	total SolverStats, notDecided map[string]int, viols []violation, known []string, wall, loadS float64) {
	type kv struct {
		k string
		v int
	}
	var fl []kv
	for k, v := range funcs {
		if strings.Contains(k, "VerifH_") {
			continue
		}
		fl = append(fl, kv{k, v})
	}
	sort.Slice(fl, func(i, j int) bool { return fl[i].k < fl[j].k })
	var fnames []string
	repoFuncs := 0
	for _, f := range fl {
		if strings.Contains(f.k, "paulmach/") {
			fnames = append(fnames, fmt.Sprintf("%s (%d calls)", f.k, f.v))
			repoFuncs++
		}
	}
	libFuncs := len(fl) - repoFuncs
	var sl []string
	for k, v := range stubs {
		sl = append(sl, fmt.Sprintf("%s (%d)", k, v))
	}
	sort.Strings(sl)
	paths, feasibleAssertPaths, asserts := 0, 0, 0
	var samples []any
	for _, r := range reports {
		paths += r.Paths
		feasibleAssertPaths += r.Outcomes["ok"] + r.Outcomes["assertfail"]
		for _, n := range r.Asserts {
			asserts += n
		}
		for i, s := range r.Samples {
			if i >= 2 {
				break
			}
			samples = append(samples, map[string]any{"harness": r.Name, "outcome": s.Outcome, "symbolic_inputs": s.NVars, "decisions": s.NDec, "ssa_steps": s.Steps, "labels_reached": s.Reached, "notes": s.Notes})
		}
	}
	if len(samples) == 0 {
		samples = append(samples, map[string]any{"note": "no completed path"})
	}
	var nd []string
	for k, v := range notDecided {
		nd = append(nd, fmt.Sprintf("%s (x%d)", k, v))
	}
	sort.Strings(nd)
	var vl []string
	for _, v := range viols {
		vl = append(vl, v.fingerprint)
	}
	vs, va, vd := 0, 0, 0
	for _, r := range reports {
		if r.Validation != nil {
			vs += r.Validation.Sampled
			va += r.Validation.Agreed
			vd += len(r.Validation.Disagreed)
		}
	}
	cov := map[string]any{
		"encoding_validation": map[string]any{"proven_paths_replayed_natively": vs, "agreed": va, "disagreements": vd,
			"rule": "a sample of the paths on which every assertion was proven is replayed natively with a solver model of the path condition; the native run must end ok (and, on single-goroutine paths, see the same labels)"},
		"explanation":              pc.Explanation,
		"evaluations":              total.Queries,
		"distinct_nontrivial":      feasibleAssertPaths,
		"rule":                     "evaluations = SMT queries discharged (branch feasibility, bounds/nil/divide guards, negated assertions); distinct_nontrivial = distinct feasible symbolic paths (distinct decision sequences) that ran the real code to the end of the harness, each standing for all input values satisfying its path condition",
		"samples":                  samples,
		"functions_encoded":        fnames,
		"library_functions_encoded": libFuncs,
		"stubs_and_intrinsics_hit": sl,
		"bounds":                   pc.Bounds,
		"outside_the_claim":        pc.Outside,
		"harnesses":                reports,
		"paths_explored":           paths,
		"assertion_checks":         asserts,
		"queries":                  map[string]int{"sat": total.Sat, "unsat": total.Unsat, "unknown": total.Unknown, "error": total.Errors, "total": total.Queries},
		"solver_time_s":            total.Time.Seconds(),
		"solver":                   "z3 4.8.12 (z3 -in, incremental); queries containing bvmul/bvudiv/bvsdiv/bvurem are raced against cvc5 1.0 --incremental --solve-bv-as-int=sum (first definite verdict wins)",
		"load_and_ssa_build_s":     loadS,
		"not_decided":              nd,
		"known_findings_printed":   known,
		"violations":               vl,
		"encoding_source":          "go/ssa built from /repo working tree on this run (golang.org/x/tools v0.29.0), harnesses injected by overlay",
	}
	ev := map[string]any{
		"property_id": pc.Property,
		"tier":        tier,
		"seed":        seed,
		"level":       "other",
		"coverage":    cov,
		"assumptions": pc.Assumptions,
		"wall_s":      wall,
		"violations":  len(viols),
	}
	evDir := filepath.Join(verifDir, "evidence")
	if d := os.Getenv("SYMGO_EVIDENCE"); d != "" {
		evDir = d
	}
	os.MkdirAll(evDir, 0755)
	b, _ := json.MarshalIndent(ev, "", " ")
	os.WriteFile(filepath.Join(evDir, pc.Property+".json"), b, 0644)
}

// cmdNative runs one harness natively on the inputs of a values file (debugging aid).
func cmdNative(args []string) int {
	fs := flag.NewFlagSet("native", flag.ExitOnError)
	prop := fs.String("prop", "", "property id")
	only := fs.String("harness", "", "harness name")
	valFile := fs.String("values", "", "values.json / disagreement file")
	fs.Parse(args)
	var pc PropConfig
	b, err := os.ReadFile(filepath.Join(verifDir, "harness/config", *prop+".json"))
	if err != nil || json.Unmarshal(b, &pc) != nil {
		fmt.Fprintln(os.Stderr, "config:", err)
		return 2
	}
	for _, h := range pc.Harnesses {
		if h.Name != *only {
			continue
		}
		_, files, err := buildOverlay([]string{h.Pkg})
		if err != nil {
			fmt.Fprintln(os.Stderr, err)
			return 2
		}
		sb := buildSampleBinary(filepath.Join(replayRoot, *prop), h.Pkg, []string{h.Func}, files)
		defer os.RemoveAll(sb.dir)
		if sb.err != "" {
			fmt.Fprintln(os.Stderr, sb.err)
			return 2
		}
		var doc struct {
			Values map[string]uint64 `json:"values"`
			Params map[string]int    `json:"params"`
		}
		vb, _ := os.ReadFile(*valFile)
		json.Unmarshal(vb, &doc)
		params := doc.Params
		if params == nil && h.Quick != nil {
			params = h.Quick.Params
		}
		_, _, out := runSample(sb, h.Pkg, h.Func, doc.Values, params, 0)
		fmt.Print(out)
		return 0
	}
	fmt.Fprintln(os.Stderr, "no such harness")
	return 2
}
