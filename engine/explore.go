package main

// Path exploration by re-execution: a path is identified by its decision
// sequence; workers pop a prefix, re-run the harness following it, and push the
// feasible alternatives of every new decision they meet.

import (
	"fmt"
	"os"
	"sort"
	"strings"
	"sync"
	"time"

	"golang.org/x/tools/go/ssa"
)

type HarnessCfg struct {
	Name             string `json:"name"`
	Func             string `json:"func"`
	Pkg              string `json:"pkg"`
	Unwind           int    `json:"unwind"`
	Steps            int    `json:"steps"`
	MaxDepth         int    `json:"max_depth"`
	MaxAlloc         int    `json:"max_alloc"`
	MaxAllocConcrete int    `json:"max_alloc_concrete"`
	Sched            string `json:"sched"`
	Preempt          int    `json:"preempt"`
	SelectAll        bool   `json:"select_all"`
	BlockChoice      bool   `json:"block_choice"` // Mode B: also explore every choice at blocking points
	SortContract     bool   `json:"sort_contract"` // sort.Sort may return ANY permutation consistent with Less (its documented contract)
	MapOrder         string `json:"map_order"`
	Race             bool   `json:"race"`
	TimeoutMs        int    `json:"timeout_ms"`
	MaxPaths         int    `json:"max_paths"`
	Params           map[string]int `json:"params"`
	Solver           string `json:"solver"`
}

func (c *HarnessCfg) defaults() {
	if c.Unwind == 0 {
		c.Unwind = 200
	}
	if c.Steps == 0 {
		c.Steps = 3000000
	}
	if c.MaxDepth == 0 {
		c.MaxDepth = 200
	}
	if c.MaxAlloc == 0 {
		c.MaxAlloc = 16
	}
	if c.MaxAllocConcrete == 0 {
		c.MaxAllocConcrete = 1 << 26
	}
	if c.Sched == "" {
		c.Sched = "A"
	}
	if c.TimeoutMs == 0 {
		c.TimeoutMs = 20000
	}
	if c.Solver == "" {
		c.Solver = "z3"
	}
}

type Counterexample struct {
	Label    string            `json:"label"`
	Kind     string            `json:"kind"` // assert, panic, deadlock, race, leak
	Detail   string            `json:"detail"`
	Values   map[string]uint64 `json:"values"`
	Kinds    map[string]string `json:"kinds"`
	Trace    []int             `json:"trace"`
	Notes    []string          `json:"notes,omitempty"`
	Harness  string            `json:"harness"`
	Weak     bool              `json:"weak,omitempty"`
}

// OkSample: a model of the path condition of a path on which every assertion was
// proven, with what the executor saw on that path; replayed natively to validate the
// encoding (the native run must end ok and see the same labels).
type OkSample struct {
	Values        map[string]uint64 `json:"values"`
	Reached       []string          `json:"reached"`
	Asserts       map[string]int    `json:"asserts"`
	Deterministic bool              `json:"deterministic"` // single goroutine, no schedule/map-order/sort-contract choice
	OkIndex       int               `json:"ok_index"`
}

// exactBudget: at most 5000 exact-comparison attempts per assertion label and harness.
func (ex *Explorer) exactBudget(label string) bool {
	ex.mu.Lock()
	defer ex.mu.Unlock()
	if ex.exactTries == nil {
		ex.exactTries = map[string]int{}
	}
	ex.exactTries[label]++
	return ex.exactTries[label] <= 5000
}

// exactQuery asks the solver for the exact comparison; after two undecided answers for
// a label the query is no longer tried (each costs a full timeout) and only the
// cheap model search remains.
func (in *Interp) exactQuery(label string, ex *Term) (Verdict, map[string]uint64) {
	e := in.ex
	e.mu.Lock()
	if e.exactUnknown == nil {
		e.exactUnknown = map[string]int{}
	}
	skip := e.exactUnknown[label] >= 2
	e.mu.Unlock()
	if skip {
		return Unknown, nil
	}
	v, m, _ := in.check(in.tt.Not(ex), true)
	if v == Unknown {
		e.mu.Lock()
		e.exactUnknown[label]++
		e.mu.Unlock()
	}
	return v, m
}

// wantOkSample: the 1st..3rd ok path and every ok path whose ordinal is a power of two.
func (ex *Explorer) wantOkSample() (int, bool) {
	ex.mu.Lock()
	defer ex.mu.Unlock()
	ex.okSeen++
	k := ex.okSeen
	if len(ex.okSamples) >= 24 {
		return k, false
	}
	return k, k <= 3 || k&(k-1) == 0
}

type PathResult struct {
	Outcome string // ok, assume, unsupported, unwind, steps, deadlock, panic, infeasible
	Msg     string
	Steps   int
	NVars   int
	NDec    int
	Notes   []string
	Reached []string
}

type Explorer struct {
	mu       sync.Mutex
	cond     *sync.Cond
	work     [][]int
	active   int
	stop     bool
	cfg      *HarnessCfg
	fn       *ssa.Function
	prog     *ssa.Program

	paths      int
	outcomes   map[string]int
	notDecided map[string]int
	cexs       []*Counterexample
	cexCount   map[string]int
	reached    map[string]int
	asserts    map[string]int // label -> times checked on a feasible path
	funcsHit   map[string]int
	stubsHit   map[string]int
	samples    []PathResult
	okSamples  []*OkSample
	exactTries map[string]int
	slowTries  map[string]int
	exactUnknown map[string]int
	okSeen     int
	stats      SolverStats
	maxSteps   int
	totalSteps int
	truncated  bool
	decisions  int
	polyDump   func(in *Interp, target Value)
}

func NewExplorer(prog *ssa.Program, fn *ssa.Function, cfg *HarnessCfg) *Explorer {
	ex := &Explorer{cfg: cfg, fn: fn, prog: prog,
		outcomes: map[string]int{}, notDecided: map[string]int{}, cexCount: map[string]int{},
		reached: map[string]int{}, asserts: map[string]int{}, funcsHit: map[string]int{}, stubsHit: map[string]int{}}
	ex.cond = sync.NewCond(&ex.mu)
	ex.work = [][]int{{}}
	return ex
}

func (ex *Explorer) push(p []int) {
	ex.mu.Lock()
	ex.work = append(ex.work, p)
	ex.mu.Unlock()
	ex.cond.Signal()
}

func (ex *Explorer) pop() ([]int, bool) {
	ex.mu.Lock()
	defer ex.mu.Unlock()
	for {
		if ex.stop {
			return nil, false
		}
		if n := len(ex.work); n > 0 {
			p := ex.work[n-1]
			ex.work = ex.work[:n-1]
			ex.active++
			return p, true
		}
		if ex.active == 0 {
			ex.cond.Broadcast()
			return nil, false
		}
		ex.cond.Wait()
	}
}

func (ex *Explorer) done() {
	ex.mu.Lock()
	ex.active--
	if ex.active == 0 && len(ex.work) == 0 {
		ex.cond.Broadcast()
	}
	ex.mu.Unlock()
}

func (ex *Explorer) Run(workers int) {
	var wg sync.WaitGroup
	for w := 0; w < workers; w++ {
		wg.Add(1)
		go func(w int) {
			defer wg.Done()
			ex.worker(w)
		}(w)
	}
	wg.Wait()
}

func (ex *Explorer) newInterp() *Interp {
	in := &Interp{prog: ex.prog, tt: NewTermTable(), ex: ex, cfg: ex.cfg,
		infos: map[*ssa.Function]*fnInfo{}, funcsHit: map[string]int{}, stubsHit: map[string]int{},
		constCache: map[*ssa.Const]Value{}}
	return in
}

func (ex *Explorer) worker(w int) {
	in := ex.newInterp()
	sv, err := NewSolver(ex.cfg.Solver, ex.cfg.TimeoutMs)
	if err != nil {
		fmt.Fprintln(os.Stderr, "cannot start solver:", err)
		os.Exit(2)
	}
	in.solver = sv
	defer sv.Close()
	for {
		p, ok := ex.pop()
		if !ok {
			break
		}
		res := in.runPath(ex.fn, p)
		ex.record(in, res)
		ex.done()
	}
	ex.mergeStats(in.solver.stats)
	if in.solver2 != nil {
		ex.mergeStats(in.solver2.stats)
		in.solver2.Close()
	}
	ex.mu.Lock()
	for k, v := range in.funcsHit {
		ex.funcsHit[k] += v
	}
	for k, v := range in.stubsHit {
		ex.stubsHit[k] += v
	}
	ex.mu.Unlock()
}

func (ex *Explorer) mergeStats(s SolverStats) {
	ex.mu.Lock()
	ex.stats.Sat += s.Sat
	ex.stats.Unsat += s.Unsat
	ex.stats.Unknown += s.Unknown
	ex.stats.Errors += s.Errors
	ex.stats.Queries += s.Queries
	ex.stats.Time += s.Time
	ex.mu.Unlock()
}

func (ex *Explorer) record(in *Interp, r PathResult) {
	ex.mu.Lock()
	defer ex.mu.Unlock()
	ex.paths++
	ex.outcomes[r.Outcome]++
	if os.Getenv("SYMGO_PROGRESS") != "" {
		fmt.Fprintf(os.Stderr, "path %d: %s %s steps=%d dec=%d vars=%d queue=%d\n", ex.paths, r.Outcome, r.Msg, r.Steps, r.NDec, r.NVars, len(ex.work))
	}
	ex.totalSteps += r.Steps
	if r.Steps > ex.maxSteps {
		ex.maxSteps = r.Steps
	}
	ex.decisions += r.NDec
	switch r.Outcome {
	case "unsupported", "unwind", "steps", "internal", "solver":
		ex.notDecided[r.Outcome+": "+r.Msg]++
	}
	for _, l := range r.Reached {
		ex.reached[l]++
	}
	if len(ex.samples) < 6 && (r.Outcome == "ok") && (len(ex.samples) < 3 || r.NVars > 0) {
		ex.samples = append(ex.samples, r)
	}
	if ex.cfg.MaxPaths > 0 && ex.paths >= ex.cfg.MaxPaths && !ex.stop {
		ex.stop = true
		ex.truncated = true
		ex.cond.Broadcast()
	}
}

func (ex *Explorer) addCex(c *Counterexample) {
	ex.mu.Lock()
	defer ex.mu.Unlock()
	key := c.Kind + "/" + c.Label
	if c.Weak {
		// a candidate that fails only the congruence form of a comparison: kept (the
		// native replay decides) but it does not stop the search for a real one
		key = "weak/" + c.Label
		ex.cexCount[key]++
		if ex.cexCount[key] <= 2 {
			ex.cexs = append(ex.cexs, c)
		}
		return
	}
	ex.cexCount[key]++
	if ex.cexCount[key] <= 3 {
		// candidates that falsify the exact comparison go first
		ex.cexs = append([]*Counterexample{c}, ex.cexs...)
	}
}

// ---------------------------------------------------------------- per path

func (in *Interp) runPath(fn *ssa.Function, prefix []int) (res PathResult) {
	in.resetRun(prefix)
	defer func() {
		res.Steps = in.steps
		res.NVars = len(in.vars)
		res.NDec = len(in.trace)
		res.Notes = in.notes
		for l := range in.reached {
			res.Reached = append(res.Reached, l)
		}
		sort.Strings(res.Reached)
		if r := recover(); r != nil {
			pe, ok := r.(pathEnd)
			if !ok {
				if _, isBlock := r.(blockSignal); isBlock {
					res.Outcome, res.Msg = "internal", "stray block signal"
					return
				}
				res.Outcome = "internal"
				res.Msg = fmt.Sprint(r) + " at " + in.curSite()
				if os.Getenv("SYMGO_DEBUG") != "" {
					panic(r)
				}
				return
			}
			res.Outcome, res.Msg = pe.kind, pe.msg
			switch pe.kind {
			case "panic":
				in.reportCex("panic", panicLabel(pe.msg), pe.msg)
			case "deadlock":
				in.reportCex("deadlock", "deadlock", pe.msg)
			}
		}
	}()
	g := in.newGoroutine("main")
	in.cur = g
	in.pushFrame(g, fn, nil, nil, nil)
	in.runAll()
	// harness returned
	if in.cfg.Race && len(in.races) > 0 {
		for _, r := range in.races {
			in.reportCex("race", "race", r)
		}
	}
	res.Outcome = "ok"
	if k, want := in.ex.wantOkSample(); want && in.failLabel == "" {
		if v, model, _ := in.check(nil, true); v == Sat {
			smp := &OkSample{Values: in.withRanges(model), Asserts: map[string]int{}, OkIndex: k,
				Deterministic: len(in.gs) == 1 && in.freeChoices == 0}
			for l := range in.reached {
				smp.Reached = append(smp.Reached, l)
			}
			sort.Strings(smp.Reached)
			for l, n := range in.pathAsserts {
				smp.Asserts[l] = n
			}
			in.ex.mu.Lock()
			in.ex.okSamples = append(in.ex.okSamples, smp)
			in.ex.mu.Unlock()
		}
	}
	return
}

// panicLabel reduces a panic site to function+kind so that it is stable under edits.
func panicLabel(msg string) string {
	// msg looks like "kind: pkg.Func@file.go:123: text"
	kind := msg
	if i := strings.Index(msg, ": "); i >= 0 {
		kind = msg[:i]
		rest := msg[i+2:]
		if j := strings.Index(rest, "@"); j >= 0 {
			return kind + ":" + rest[:j]
		}
	}
	return kind
}

func (in *Interp) reportCex(kind, label, detail string) {
	// obtain a model of the current path condition
	verdict, model, _ := in.check(nil, true)
	if verdict == Unsat {
		return
	}
	model = in.withRanges(model)
	c := &Counterexample{Label: label, Kind: kind, Detail: detail, Values: model, Kinds: in.varKinds,
		Trace: append([]int(nil), in.trace...), Notes: in.notes, Harness: in.cfg.Name}
	if verdict == Unknown {
		c.Detail += " [model unknown]"
	}
	in.ex.addCex(c)
}

// check decides pc ∧ extra. Queries whose formula contains multiplication/division
// are raced between z3 (bit-blasting) and cvc5 --solve-bv-as-int=sum (integer
// encoding): each decides a class of kernels the other cannot; the first definite
// verdict wins and the loser is restarted.
func (in *Interp) check(extra *Term, model bool) (Verdict, map[string]uint64, error) {
	if os.Getenv("SYMGO_SLOW") != "" {
		st := time.Now()
		defer func() {
			if d := time.Since(st); d > 2*time.Second {
				ex := ""
				if extra != nil {
					ex = in.tt.expand(extra, 6)
				}
				fmt.Fprintf(os.Stderr, "SLOW %v at %s extra=%s\n", d, in.curSite(), ex)
			}
		}()
	}
	var want []*Term
	if model {
		want = in.vars
	}
	if in.solver.dead {
		in.restartSolver(&in.solver, in.cfg.Solver)
	}
	if in.cfg.Solver == "z3" && in.hardArith(extra) {
		if in.solver2 == nil || in.solver2.dead {
			in.restartSolver(&in.solver2, "cvc5-int")
		}
		if in.solver2 != nil {
			return in.raceCheck(extra, want)
		}
	}
	v, m, err := in.solver.Check(in.pc, extra, want)
	if err != nil {
		in.solver.Close()
		return Unknown, nil, nil
	}
	return v, m, err
}

func (in *Interp) restartSolver(sp **Solver, name string) {
	if *sp != nil {
		(*sp).Close()
		in.ex.mergeStats((*sp).stats)
	}
	s, err := NewSolver(name, in.cfg.TimeoutMs)
	if err != nil {
		*sp = nil
		return
	}
	*sp = s
}

type checkRes struct {
	v   Verdict
	m   map[string]uint64
	err error
	who int
}

func (in *Interp) raceCheck(extra *Term, want []*Term) (Verdict, map[string]uint64, error) {
	ch := make(chan checkRes, 2)
	pc := append([]*Term(nil), in.pc...)
	s1, s2 := in.solver, in.solver2
	go func() {
		v, m, err := s1.Check(pc, extra, want)
		ch <- checkRes{v, m, err, 1}
	}()
	go func() {
		v, m, err := s2.Check(pc, extra, want)
		ch <- checkRes{v, m, err, 2}
	}()
	first := <-ch
	if first.err == nil && first.v != Unknown {
		// give the other a short grace period, then kill it
		select {
		case <-ch:
		case <-time.After(30 * time.Millisecond):
			if first.who == 1 {
				s2.Close()
			} else {
				s1.Close()
			}
			<-ch
		}
		in.stubsHit[fmt.Sprintf("solver-race won by %s", map[int]string{1: "z3", 2: "cvc5-int"}[first.who])]++
		return first.v, first.m, nil
	}
	second := <-ch
	if second.err == nil && second.v != Unknown {
		return second.v, second.m, nil
	}
	return Unknown, nil, nil
}

func (in *Interp) hardArith(t *Term) bool {
	if in.hardMemo == nil {
		in.hardMemo = map[int]bool{}
	}
	if t != nil && in.tt.usesHardArith(t, in.hardMemo) {
		return true
	}
	for _, p := range in.pc {
		if in.tt.usesHardArith(p, in.hardMemo) {
			return true
		}
	}
	return false
}

func (in *Interp) feasible(c *Term) bool {
	ok, _ := in.feasibleM(c)
	return ok
}

// feasibleM decides pc ∧ c and returns the satisfying assignment when there is one.
func (in *Interp) feasibleM(c *Term) (bool, map[string]uint64) {
	if c.IsConst() {
		return c.BoolVal(), nil
	}
	v, m, _ := in.check(c, true)
	if v == Unknown {
		in.unknowns++
		return true, nil
	}
	return v != Unsat, m
}

// holds evaluates a condition under the cached model of the current path condition
// (0 = false, 1 = true, -1 = no model).
func (in *Interp) holds(c *Term) int {
	if in.model == nil {
		return -1
	}
	r := in.tt.Eval(c, in.model, map[int]*Term{})
	if !r.IsConst() {
		return -1
	}
	if r.BoolVal() {
		return 1
	}
	return 0
}

func (in *Interp) pushAlt(choice int) {
	p := make([]int, len(in.trace)+1)
	copy(p, in.trace)
	p[len(in.trace)] = choice
	in.ex.push(p)
}

// decideFree: an n-way choice with no feasibility condition (scheduler, vRange).
func (in *Interp) decideFree(n int) int {
	if n <= 1 {
		return 0
	}
	d := in.decIdx
	in.decIdx++
	if d < len(in.prefix) {
		c := in.prefix[d]
		in.trace = append(in.trace, c)
		return c
	}
	for i := n - 1; i >= 1; i-- {
		in.pushAlt(i)
	}
	in.trace = append(in.trace, 0)
	return 0
}

// branch decides a boolean condition, forking when both sides are feasible. The
// model of the last satisfiable query is kept: the side it takes needs no query.
func (in *Interp) branch(c *Term) bool {
	if c.IsConst() {
		return c.BoolVal()
	}
	d := in.decIdx
	in.decIdx++
	var choice int
	if d < len(in.prefix) {
		choice = in.prefix[d]
		if h := in.holds(c); h >= 0 && h != choice {
			in.model = nil
		}
	} else {
		nc := in.tt.Not(c)
		var tSat, fSat bool
		var tM, fM map[string]uint64
		switch in.holds(c) {
		case 1:
			tSat, tM = true, in.model
			fSat, fM = in.feasibleM(nc)
		case 0:
			fSat, fM = true, in.model
			tSat, tM = in.feasibleM(c)
		default:
			tSat, tM = in.feasibleM(c)
			fSat = true
			if tSat {
				fSat, fM = in.feasibleM(nc)
			}
		}
		switch {
		case tSat && fSat:
			in.pushAlt(0)
			choice = 1
			in.noteFork()
		case tSat:
			choice = 1
		default:
			choice = 0
		}
		if choice == 1 {
			in.model = tM
		} else {
			in.model = fM
		}
	}
	in.trace = append(in.trace, choice)
	if choice == 1 {
		in.pc = append(in.pc, c)
		return true
	}
	in.pc = append(in.pc, in.tt.Not(c))
	return false
}

// choose picks one of several guarded alternatives (mutually exclusive guards).
func (in *Interp) choose(conds []*Term) int {
	d := in.decIdx
	in.decIdx++
	var choice int
	if d < len(in.prefix) {
		choice = in.prefix[d]
		if in.holds(conds[choice]) != 1 {
			in.model = nil
		}
	} else {
		choice = -1
		var feas []int
		models := map[int]map[string]uint64{}
		for i, c := range conds {
			if c.IsConst() && !c.BoolVal() {
				continue
			}
			if in.holds(c) == 1 {
				feas = append(feas, i)
				models[i] = in.model
				continue
			}
			if ok, m := in.feasibleM(c); ok {
				feas = append(feas, i)
				models[i] = m
			}
		}
		if len(feas) == 0 {
			panic(pathEnd{kind: "infeasible", msg: "no feasible alternative"})
		}
		choice = feas[0]
		for k := len(feas) - 1; k >= 1; k-- {
			in.pushAlt(feas[k])
			in.noteFork()
		}
		in.model = models[choice]
	}
	in.trace = append(in.trace, choice)
	in.pc = append(in.pc, conds[choice])
	return choice
}

// assume restricts the path; an infeasible assumption ends it quietly.
func (in *Interp) assume(c *Term) {
	if c.IsConst() {
		if !c.BoolVal() {
			panic(pathEnd{kind: "assume", msg: "assumption false"})
		}
		return
	}
	d := in.decIdx
	in.decIdx++
	if d < len(in.prefix) {
		in.trace = append(in.trace, 1)
		in.pc = append(in.pc, c)
		if in.holds(c) != 1 {
			in.model = nil
		}
		return
	}
	if in.holds(c) != 1 {
		ok, m := in.feasibleM(c)
		if !ok {
			panic(pathEnd{kind: "assume", msg: "assumption infeasible"})
		}
		in.model = m
	}
	in.trace = append(in.trace, 1)
	in.pc = append(in.pc, c)
}

// assert checks a property on the current path.
func (in *Interp) assertProp(c *Term, label string) {
	in.ex.mu.Lock()
	in.ex.asserts[label]++
	in.ex.mu.Unlock()
	in.pathAsserts[label]++
	if c.IsConst() && c.BoolVal() {
		return
	}
	d := in.decIdx
	in.decIdx++
	choice := 1 // 1 = proven on this path (implied by pc), 2 = violated somewhere: continue under the assumption that it holds
	if d < len(in.prefix) {
		choice = in.prefix[d]
	} else if in.ex.enough(label) && !c.IsConst() {
		// this assertion already has counterexample candidates from other paths:
		// do not spend more solver time on it, continue under the assumption that it holds
		// (choice 3: without adding it to the path condition when it contains arithmetic
		// the solvers are slow on - later findings on this path are replayed natively anyway)
		choice = 2
		if in.needsCong(c) {
			choice = 3
		}
	} else {
		nc := in.tt.Not(c)
		var v Verdict
		var model map[string]uint64
		t0 := time.Now()
		if c.IsConst() {
			v, model, _ = in.check(nil, true)
		} else {
			v, model, _ = in.check(nc, true)
		}
		slowStrong := time.Since(t0) > 3*time.Second
		if slowStrong && v != Unsat {
			in.ex.noteSlow(label)
		}
		weak := false
		if ex := in.exact(c); v != Unsat && ex != c && (slowStrong || !in.ex.exactBudget(label)) {
			// the strong form alone already took seconds: the exact form and the model
			// search would each cost as much again; keep the candidate as a weak one
			weak = true
			if v == Sat && model != nil {
				r := in.tt.Eval(ex, model, map[int]*Term{})
				weak = !(r.IsConst() && !r.BoolVal())
			}
		} else if v != Unsat && ex != c {
			// the strong (congruence) form is not implied: decide the exact comparison.
			// unsat: proven; sat: a real counterexample; unknown: keep the candidate
			// found for the strong form (the native replay decides whether it is one).
			in.stubsHit["exact comparison after congruence was inconclusive"]++
			falseUnder := func(m map[string]uint64) bool {
				if m == nil {
					return false
				}
				r := in.tt.Eval(ex, m, map[int]*Term{})
				return r.IsConst() && !r.BoolVal()
			}
			if ex.IsConst() && ex.BoolVal() {
				v = Unsat
			} else if v == Sat && falseUnder(model) {
				// the candidate already falsifies the exact comparison
			} else if v2, m2 := in.exactQuery(label, ex); v2 == Unsat {
				v = Unsat
			} else if v2 == Sat {
				v, model = Sat, m2
			} else {
				// exact query not decided: let the solver propose other models of the strong
				// failure (cheap) and evaluate the exact comparison on each
				sup := in.hardSupport(ex)
				for k := 1; k <= 5; k++ {
					v3, m3, _ := in.check(in.tt.And(nc, in.diversify(k, sup)), true)
					if os.Getenv("SYMGO_EXACTDBG") != "" {
						fmt.Fprintf(os.Stderr, "  diversify k=%d sup=%d verdict=%v false=%v\n", k, len(sup), v3, falseUnder(m3))
					}
					if v3 == Sat && falseUnder(m3) {
						v, model = Sat, m3
						break
					}
				}
			}
			if os.Getenv("SYMGO_EXACTDBG") != "" {
				fmt.Fprintf(os.Stderr, "EXACT %s: final=%v falseUnderModel=%v ex=%s\n", label, v, falseUnder(model), in.tt.expand(ex, 4))
			}
			if v != Unsat {
				weak = !falseUnder(model)
			}
		}
		if v != Unsat {
			choice = 2
			if !c.IsConst() && in.needsCong(c) {
				choice = 3 // arithmetic-heavy: do not carry it in the path condition
			}
			model = in.withRanges(model)
			cex := &Counterexample{Label: label, Kind: "assert", Values: model, Kinds: in.varKinds,
				Trace: append([]int(nil), in.trace...), Notes: append([]string(nil), in.notes...), Harness: in.cfg.Name, Weak: weak}
			if v == Unknown {
				cex.Kind = "unknown"
				cex.Detail = "solver returned unknown for the negated assertion"
			}
			in.ex.addCex(cex)
		}
	}
	in.trace = append(in.trace, choice)
	if choice == 1 || choice == 3 {
		return
	}
	if c.IsConst() {
		panic(pathEnd{kind: "assertfail", msg: label})
	}
	in.pc = append(in.pc, c)
	in.model = nil
	if d >= len(in.prefix) {
		v, m, _ := in.check(nil, true)
		if v == Unsat {
			panic(pathEnd{kind: "assertfail", msg: label})
		}
		if v == Sat {
			in.model = m
		}
	}
}

// hardSupport: the input variables of those conjuncts of an exact comparison that
// contain arithmetic the solvers do not decide (the places where congruence was used).
func (in *Interp) hardSupport(ex *Term) map[int]bool {
	sup := map[int]bool{}
	seen := map[int]bool{}
	var vars func(t *Term)
	vars = func(t *Term) {
		if seen[t.id] {
			return
		}
		seen[t.id] = true
		if t.op == OpVar {
			sup[t.id] = true
		}
		for _, a := range t.args {
			vars(a)
		}
	}
	var conj func(t *Term)
	conj = func(t *Term) {
		if t.op == OpAnd {
			conj(t.args[0])
			conj(t.args[1])
			return
		}
		if in.needsCong(t) {
			vars(t)
		}
	}
	conj(ex)
	return sup
}

// diversify: side constraints that push the solver away from the all-zero style models
// it prefers, on the given inputs: non-zero, odd, low bits 101, low bits 111, large.
func (in *Interp) diversify(k int, sup map[int]bool) *Term {
	tt := in.tt
	r := tt.True
	for _, v := range in.vars {
		if v.sort.K != KBV || v.sort.W < 8 || !sup[v.id] {
			continue
		}
		w := v.sort.W
		var c *Term
		switch k {
		case 1:
			c = tt.Not(tt.Eq(v, tt.Const(w, 0)))
		case 2:
			c = tt.Eq(tt.Bin(OpBAnd, v, tt.Const(w, 1)), tt.Const(w, 1))
		case 3:
			c = tt.Eq(tt.Bin(OpBAnd, v, tt.Const(w, 7)), tt.Const(w, 5))
		case 4:
			c = tt.Eq(tt.Bin(OpBAnd, v, tt.Const(w, 7)), tt.Const(w, 7))
		default:
			c = tt.Cmp(OpUlt, tt.Const(w, 100), v)
		}
		r = tt.And(r, c)
	}
	return r
}

func (in *Interp) withRanges(m map[string]uint64) map[string]uint64 {
	if m == nil {
		m = map[string]uint64{}
	}
	for k, v := range in.ranges {
		m[k] = v
	}
	return m
}

var forkSites = map[string]int{}
var forkMu sync.Mutex

func (in *Interp) noteFork() {
	if os.Getenv("SYMGO_FORKS") == "" {
		return
	}
	site := in.curSite()
	forkMu.Lock()
	forkSites[site]++
	forkMu.Unlock()
}

func dumpForks() {
	if os.Getenv("SYMGO_FORKS") == "" {
		return
	}
	type kv struct {
		k string
		v int
	}
	var l []kv
	for k, v := range forkSites {
		l = append(l, kv{k, v})
	}
	sort.Slice(l, func(i, j int) bool { return l[i].v > l[j].v })
	for i, e := range l {
		if i > 25 {
			break
		}
		fmt.Fprintf(os.Stderr, "FORK %6d %s\n", e.v, e.k)
	}
}

// enough: three counterexample candidates (or unknowns) were already collected for this assertion.
func (ex *Explorer) enough(label string) bool {
	ex.mu.Lock()
	defer ex.mu.Unlock()
	// also after six checks of this assertion that each took seconds: more of the same
	// would cost minutes and the candidates already kept are replayed natively
	return ex.cexCount["assert/"+label]+ex.cexCount["unknown/"+label] >= 3 || ex.slowTries[label] >= 6
}

func (ex *Explorer) noteSlow(label string) {
	ex.mu.Lock()
	defer ex.mu.Unlock()
	if ex.slowTries == nil {
		ex.slowTries = map[string]int{}
	}
	ex.slowTries[label]++
}
