#!/bin/bash
# usage: seedrun.sh <seed-id> <prop> [harness]   -- run one check against one seeded change in a scratch worktree
id=$1; prop=$2; h=$3
export GOFLAGS=-mod=mod GOPROXY=off GOSUMDB=off GOTOOLCHAIN=local
wt=/tmp/seedrun_$$; git -C /repo worktree add -q --detach $wt HEAD || exit 3
git -C $wt apply /verif/seeded/$id/patch.diff || { echo "patch does not apply"; git -C /repo worktree remove --force $wt; exit 3; }
hf=""; [ -n "$h" ] && hf="--harness $h"
SYMGO_REPO=$wt SYMGO_REPLAYS=/tmp/seedrun_replays_$$ SYMGO_EVIDENCE=/tmp/seedrun_ev_$$ timeout ${TMO:-900} ${SYMGO_BIN:-/verif/bin/symgo} check --prop $prop $hf --jobs ${JOBS:-6} 2>&1 | grep "^harness\|NOT-DEC\|VIOL\|finger\|UNCONF\|MACH\|KNOWN" | cut -c1-220
git -C /repo worktree remove --force $wt; rm -rf /tmp/seedrun_replays_$$ /tmp/seedrun_ev_$$
