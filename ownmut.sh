#!/bin/bash
# usage: ownmut.sh <prop> <harness|-> <file> <python-replace-old> <python-replace-new>
# makes an ad-hoc change in a scratch worktree and runs the check against it
prop=$1; h=$2; file=$3; old=$4; new=$5
wt=/tmp/ownmut_$$; git -C /repo worktree add -q --detach $wt HEAD || exit 3
python3 - "$wt/$file" "$old" "$new" <<'PY'
import sys
p,old,new=sys.argv[1:4]
s=open(p).read()
assert old in s, "pattern not found"
open(p,'w').write(s.replace(old,new,1))
PY
(cd $wt && GOFLAGS=-mod=mod go build ./... ) || echo "DOES NOT COMPILE"
hf=""; [ "$h" != "-" ] && hf="--harness $h"
SYMGO_REPO=$wt SYMGO_REPLAYS=/tmp/ownmut_replays SYMGO_EVIDENCE=/tmp/ownmut_ev timeout 900 ${SYMGO_BIN:-/verif/bin/symgo} check --prop $prop $hf --jobs ${JOBS:-6} 2>&1 | grep "^harness\|NOT-DEC\|VIOL\|finger\|UNCONF\|MACH" | cut -c1-200
git -C /repo worktree remove --force $wt
