#!/bin/bash
# Runs each stored seeded mutation through the quick check of its property, in a
# scratch worktree (never /repo), and writes /verif/seeded/MATRIX.md.
# usage: seed_matrix.sh [ids...]
cd /verif
ids="$@"; [ -z "$ids" ] && ids=$(ls seeded | grep '^C[0-9]*_' | sort)
BIN=/tmp/symgo_matrix_$$; cp bin/symgo $BIN
# snapshot of the harnesses and configs, so that /verif can be edited while this runs
SNAP=/tmp/symgo_matrix_snap_$$; rm -rf $SNAP; mkdir -p $SNAP
cp -r /verif/harness $SNAP/harness; cp /verif/known_findings.json $SNAP/; [ -d /verif/spec ] && cp -r /verif/spec $SNAP/spec
export SYMGO_VERIF=$SNAP
trap 'rm -rf $SNAP $BIN' EXIT
out=/verif/seeded/MATRIX.md
[ -f $out ] || echo "| mutation | property check | detected | fingerprints / notes |" > $out
for id in $ids; do
  prop=${id%_*}
  [ -f $SNAP/harness/config/$prop.json ] || { echo "| $id | $prop | no check yet | |" >> $out; continue; }
  wt=/tmp/mutwt_$id; rm -rf $wt; git -C /repo worktree prune
  git -C /repo worktree add -q --detach $wt HEAD || continue
  (cd $wt && git apply /verif/seeded/$id/patch.diff) || { echo "| $id | $prop | patch does not apply | |" >> $out; git -C /repo worktree remove --force $wt; continue; }
  res=$(SYMGO_REPO=$wt SYMGO_REPLAYS=/tmp/mutreplays/$id SYMGO_EVIDENCE=/tmp/mutev timeout 1500 $BIN check --prop $prop --tier quick --jobs ${MATRIX_JOBS:-8} 2>&1)
  code=$?
  fps=$(echo "$res" | grep "fingerprint=" | sed 's/.*fingerprint=//' | awk '{print $1}' | sort -u | paste -sd' ')
  nd=$(echo "$res" | grep -c "NOT-DECIDED")
  det=no; [ $code = 1 ] && det=YES; [ $code = 124 ] && det="timeout"; [ $code = 2 ] && det="machinery-error"
  sed -i "/^| $id |/d" $out
  echo "| $id | $prop quick | $det | $fps (not-decided lines: $nd) |" >> $out
  git -C /repo worktree remove --force $wt; rm -rf $wt /tmp/mutreplays/$id
done
