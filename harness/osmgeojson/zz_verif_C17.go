//go:build verif

package osmgeojson

import (
	"github.com/paulmach/orb"
	"github.com/paulmach/orb/geojson"
	"github.com/paulmach/osm"
)

func featuresOf(fc *geojson.FeatureCollection, typ string, id int) []*geojson.Feature {
	var out []*geojson.Feature
	for _, f := range fc.Features {
		if f.Properties["type"] == typ && f.Properties["id"] == id {
			out = append(out, f)
		}
	}
	return out
}

var c17TagChoices = []osm.Tags{nil, {{Key: "source", Value: "survey"}}, {{Key: "amenity", Value: "cafe"}}, {{Key: "created_by", Value: "x"}, {Key: "name", Value: "y"}}}

func c17Interesting(i int) bool { return i >= 2 }

// VerifH_C17_nodeRule: a point feature for every located node that is not part of a
// way, or has an interesting tag, or is a relation member -- and for no other node.
func VerifH_C17_nodeRule() {
	located := vRange("located", 0, 2) // 0: no location, version 0; 1: located; 2: (0,0) but versioned
	tagSel := vRange("tags", 0, len(c17TagChoices)-1)
	inWay := vRange("inWay", 0, 1) == 1
	relMember := vRange("relationMember", 0, 1) == 1
	n := &osm.Node{ID: 1, Visible: true, Tags: c17TagChoices[tagSel]}
	var lon, lat float64
	switch located {
	case 1:
		lon, lat = vF64("lon"), vF64("lat")
		vAssume(vOr(lon != 0, lat != 0))
		vAssume(vAnd(lon == lon, lat == lat)) // not NaN
		n.Lon, n.Lat, n.Version = lon, lat, vRange("version", 0, 1)
	case 2:
		n.Version = 3
	}
	o := &osm.OSM{Nodes: osm.Nodes{n, {ID: 2, Version: 1, Lon: 5, Lat: 6}}}
	if inWay {
		o.Ways = osm.Ways{{ID: 10, Version: 1, Nodes: osm.WayNodes{{ID: 1}, {ID: 2}}, Tags: osm.Tags{{Key: "highway", Value: "path"}}}}
	}
	if relMember {
		o.Relations = osm.Relations{{ID: 20, Version: 1, Tags: osm.Tags{{Key: "type", Value: "site"}}, Members: osm.Members{{Type: osm.TypeNode, Ref: 1, Role: "x"}}}}
	}
	var opts []Option
	if vRange("noRelationMembership", 0, 1) == 1 {
		opts = append(opts, NoRelationMembership(true))
	}
	fc, err := Convert(o, opts...)
	vReach("converted")
	vAssert(err == nil, "no-error")
	fs := featuresOf(fc, "node", 1)
	want := located != 0 && (!inWay || c17Interesting(tagSel) || relMember)
	if want {
		vAssert(len(fs) == 1, "node-feature-present-exactly-once")
		if len(fs) == 1 {
			pt, ok := fs[0].Geometry.(orb.Point)
			vAssert(ok, "node-is-a-point")
			if ok {
				vAssert(vSame(pt, orb.Point{n.Lon, n.Lat}), "point-at-node-location")
			}
			vAssert(vSame(fs[0].Properties["tags"], n.Tags.Map()), "node-tags")
		}
	} else {
		vAssert(len(fs) == 0, "no-feature-for-this-node")
	}
	vAssert(len(featuresOf(fc, "relation", 20)) == 0, "no-feature-for-a-plain-relation")
}

// VerifH_C17_wayGeometry: line (or closed, correctly wound polygon for area ways)
// with the way's resolvable node coordinates in order.
func VerifH_C17_wayGeometry() {
	coords := map[int64]orb.Point{1: {1, 1}, 2: {4, 1}, 3: {4, 5}, 4: {1, 5}}
	o := &osm.OSM{}
	for id, p := range coords {
		o.Nodes = append(o.Nodes, &osm.Node{ID: osm.NodeID(id), Version: 1, Lon: p[0], Lat: p[1]})
	}
	o.Nodes.SortByIDVersion()
	nref := vRange("refs", 1, 4)
	area := vRange("area", 0, 1) == 1
	w := &osm.Way{ID: 10, Version: 1, Visible: true, Tags: osm.Tags{{Key: "name", Value: "w"}}}
	var want orb.LineString
	missing := false
	for i := 0; i < nref; i++ {
		r := int64(vRange("ref", 1, 5)) // 5 = a node that is not in the data
		w.Nodes = append(w.Nodes, osm.WayNode{ID: osm.NodeID(r)})
		if p, ok := coords[r]; ok {
			want = append(want, p)
		} else {
			missing = true
		}
	}
	if area {
		// closed way tagged as an area: close it
		w.Nodes = append(w.Nodes, w.Nodes[0])
		if p, ok := coords[int64(w.Nodes[0].ID)]; ok {
			want = append(want, p)
		}
		w.Tags = append(w.Tags, osm.Tag{Key: "area", Value: "yes"})
	}
	o.Ways = osm.Ways{w}
	fc, err := Convert(o)
	vReach("converted")
	vAssert(err == nil, "no-error")
	fs := featuresOf(fc, "way", 10)
	if len(want) <= 1 {
		vAssert(len(fs) == 0, "no-feature-without-two-coordinates")
		return
	}
	vAssert(len(fs) == 1, "one-way-feature")
	if len(fs) != 1 {
		return
	}
	f := fs[0]
	vAssert((f.Properties["tainted"] == true) == missing, "tainted-iff-node-missing")
	if w.Polygon() {
		p, ok := f.Geometry.(orb.Polygon)
		vAssert(ok && len(p) == 1, "area-way-is-a-polygon")
		if ok && len(p) == 1 {
			r := p[0]
			if want[0] != want[len(want)-1] {
				// the closing node is not resolvable: the ring is closed on the first coordinate
				want = append(want, want[0])
			}
			vAssert(len(r) >= 1 && r[0] == r[len(r)-1], "polygon-ring-closed")
			// same vertices in the same cyclic order, either direction; CCW unless degenerate
			fwd, bwd := true, true
			if len(r) != len(want) {
				fwd, bwd = false, false
			} else {
				for i := range want {
					if r[i] != want[i] {
						fwd = false
					}
					if r[i] != want[len(want)-1-i] {
						bwd = false
					}
				}
			}
			vAssert(fwd || bwd, "polygon-has-the-way-coordinates-in-order")
			vAssert(r.Orientation() != orb.CW, "outer-ring-not-clockwise")
		}
	} else {
		ls, ok := f.Geometry.(orb.LineString)
		vAssert(ok, "way-is-a-linestring")
		if ok {
			vAssert(vSame(ls, want), "line-has-the-resolvable-coordinates-in-order")
		}
	}
}

// VerifH_C17_route: a route relation's joined line geometry preserves every segment
// of its member ways, for every member order and direction of a 5-way chain.
func VerifH_C17_route() {
	pts := []orb.Point{{0, 0}, {1, 2}, {3, 3}, {5, 2}, {6, 0}, {8, 1}, {9, 3}, {11, 4}}
	pts = pts[:vParam("chain", 5)+1]
	o := &osm.OSM{}
	for i, p := range pts {
		o.Nodes = append(o.Nodes, &osm.Node{ID: osm.NodeID(i + 1), Version: 1, Lon: p[0] + 1, Lat: p[1] + 1})
	}
	order := gPerm(len(pts) - 1)
	tagged := vParam("taggedWays", 0) == 1
	var members osm.Members
	for _, k := range order {
		w := &osm.Way{ID: osm.WayID(100 + k), Version: 1, Nodes: osm.WayNodes{{ID: osm.NodeID(k + 1)}, {ID: osm.NodeID(k + 2)}}}
		if vRange("reverse", 0, 1) == 1 {
			w.Nodes[0], w.Nodes[1] = w.Nodes[1], w.Nodes[0]
		}
		if tagged {
			w.Tags = osm.Tags{{Key: "highway", Value: "path"}} // interesting: the way is a feature of its own too
		}
		o.Ways = append(o.Ways, w)
		members = append(members, osm.Member{Type: osm.TypeWay, Ref: int64(w.ID)})
	}
	o.Relations = osm.Relations{{ID: 1, Version: 1, Tags: osm.Tags{{Key: "type", Value: "route"}}, Members: members}}
	fc, err := Convert(o)
	vReach("converted")
	vAssert(err == nil, "no-error")
	fs := featuresOf(fc, "relation", 1)
	vAssert(len(fs) == 1, "one-route-feature")
	if len(fs) != 1 {
		return
	}
	// collect the segments of the geometry
	var lines []orb.LineString
	switch g := fs[0].Geometry.(type) {
	case orb.LineString:
		lines = []orb.LineString{g}
	case orb.MultiLineString:
		lines = g
	}
	seg := func(a, b orb.Point) bool {
		for _, l := range lines {
			for i := 1; i < len(l); i++ {
				if (l[i-1] == a && l[i] == b) || (l[i-1] == b && l[i] == a) {
					return true
				}
			}
		}
		return false
	}
	total := 0
	for _, l := range lines {
		total += len(l) - 1
	}
	for i := 0; i+1 < len(pts); i++ {
		a := orb.Point{pts[i][0] + 1, pts[i][1] + 1}
		b := orb.Point{pts[i+1][0] + 1, pts[i+1][1] + 1}
		vAssert(seg(a, b), "every-member-segment-preserved")
	}
	vAssert(total == len(pts)-1, "no-segment-duplicated-or-invented")
	vAssert(len(lines) == 1, "chain-joined-into-one-line")
	if tagged {
		// every way is also a feature of its own, with its coordinates in ITS node order
		for _, w := range o.Ways {
			fw := featuresOf(fc, "way", int(w.ID))
			vAssert(len(fw) == 1, "tagged-member-way-is-a-feature")
			if len(fw) == 1 {
				a := o.Nodes[int(w.Nodes[0].ID)-1]
				b := o.Nodes[int(w.Nodes[1].ID)-1]
				vAssert(vSame(fw[0].Geometry, orb.LineString{{a.Lon, a.Lat}, {b.Lon, b.Lat}}), "member-way-keeps-its-own-node-order")
			}
		}
	}
}

func c17Dataset() *osm.OSM {
	o := &osm.OSM{}
	o.Nodes = osm.Nodes{
		{ID: 1, Version: 2, Lon: 1, Lat: 1, User: "u", UserID: 7, ChangesetID: 9, Tags: osm.Tags{{Key: "amenity", Value: "cafe"}}},
		{ID: 2, Version: 1, Lon: 4, Lat: 1},
		{ID: 3, Version: 1, Lon: 4, Lat: 5},
		{ID: 4, Version: 1, Lon: 1, Lat: 5, Tags: osm.Tags{{Key: "source", Value: "x"}}},
		{ID: 5, Version: 1, Lon: 9, Lat: 9},
	}
	o.Ways = osm.Ways{
		{ID: 10, Version: 3, User: "w", Nodes: osm.WayNodes{{ID: 1}, {ID: 2}, {ID: 3}, {ID: 4}, {ID: 1}}, Tags: osm.Tags{{Key: "building", Value: "yes"}}},
		{ID: 11, Version: 1, Nodes: osm.WayNodes{{ID: 2}, {ID: 5}}, Tags: osm.Tags{{Key: "highway", Value: "path"}}},
	}
	o.Relations = osm.Relations{
		{ID: 20, Version: 1, Tags: osm.Tags{{Key: "type", Value: "route"}, {Key: "name", Value: "r"}}, Members: osm.Members{{Type: osm.TypeWay, Ref: 11, Role: "forward"}, {Type: osm.TypeNode, Ref: 2, Role: "stop"}}},
	}
	return o
}

// VerifH_C17_options: each option changes only what it documents; conversion of
// equal input gives equal output; the input is never modified.
func VerifH_C17_options() {
	mask := vRange("options", 0, 15)
	mk := func(m int) []Option {
		var opts []Option
		if m&1 != 0 {
			opts = append(opts, NoID(true))
		}
		if m&2 != 0 {
			opts = append(opts, NoMeta(true))
		}
		if m&4 != 0 {
			opts = append(opts, NoRelationMembership(true))
		}
		if m&8 != 0 {
			opts = append(opts, IncludeInvalidPolygons(true))
		}
		return opts
	}
	in := c17Dataset()
	before := vSnapshot(in).(*osm.OSM)
	base, err0 := Convert(c17Dataset())
	got, err1 := Convert(in, mk(mask)...)
	again, err2 := Convert(c17Dataset(), mk(mask)...)
	vReach("converted")
	vAssert(err0 == nil && err1 == nil && err2 == nil, "no-error")
	vAssert(vSame(in, before), "input-not-modified")
	vAssert(vSame(got, again), "equal-input-equal-output")
	vAssert(len(got.Features) == len(base.Features), "options-do-not-add-or-drop-features")
	if len(got.Features) != len(base.Features) {
		return
	}
	for i, f := range got.Features {
		b := base.Features[i]
		vAssert(vSame(f.Geometry, b.Geometry), "geometry-unchanged-by-options")
		if mask&1 != 0 {
			vAssert(f.ID == nil, "no-id-option-removes-id")
		} else {
			vAssert(vSame(f.ID, b.ID), "id-unchanged")
		}
		for k, v := range b.Properties {
			if (k == "meta" && mask&2 != 0) || (k == "relations" && mask&4 != 0) {
				_, has := f.Properties[k]
				vAssert(!has, "option-removes-its-own-key")
				continue
			}
			vAssert(vSame(f.Properties[k], v), "other-properties-unchanged")
		}
		for k := range f.Properties {
			_, has := b.Properties[k]
			vAssert(has, "options-only-subtract")
		}
	}
}

// VerifH_C17_membership: features carry their relation memberships (id, role, tags
// of every relation the element is a member of), for node, way and relation members.
func VerifH_C17_membership() {
	o := c17Dataset()
	// a parent relation that has the route relation, a way and a node as members
	parent := &osm.Relation{ID: 30, Version: 1, Tags: osm.Tags{{Key: "type", Value: "route"}, {Key: "ref", Value: "M"}},
		Members: osm.Members{{Type: osm.TypeRelation, Ref: 20, Role: "sub"}, {Type: osm.TypeWay, Ref: 10, Role: "area"}, {Type: osm.TypeNode, Ref: 5, Role: "end"}}}
	if vRange("parentBeforeChild", 0, 1) == 1 {
		o.Relations = append(osm.Relations{parent}, o.Relations...)
	} else {
		o.Relations = append(o.Relations, parent)
	}
	fc, err := Convert(o)
	vReach("converted")
	vAssert(err == nil, "no-error")
	has := func(typ string, id int, rel osm.RelationID, role string) bool {
		fs := featuresOf(fc, typ, id)
		if len(fs) != 1 {
			return false
		}
		list, ok := fs[0].Properties["relations"].([]*relationSummary)
		if !ok {
			return false
		}
		for _, s := range list {
			if s.ID == rel && s.Role == role {
				return true
			}
		}
		return false
	}
	vAssert(has("relation", 20, 30, "sub"), "relation-member-lists-its-parent-relation")
	vAssert(has("way", 10, 30, "area"), "way-member-lists-its-relation")
	vAssert(has("node", 5, 30, "end"), "node-member-lists-its-relation")
	vAssert(has("node", 2, 20, "stop"), "node-member-lists-its-relation-2")
	vAssert(!has("node", 1, 20, "stop") && !has("node", 1, 30, "end"), "non-member-lists-nothing")
}

// VerifH_C17_metaOwner: every feature carries the metadata of the element it is
// identified as. Includes the old-style multipolygon (a relation without tags of its
// own whose single outer way supplies identity and tags): the feature is way/<id>
// and its meta is the way's, not the relation's.
func VerifH_C17_metaOwner() {
	o := c17Dataset()
	wv, rv := vRange("wayVersion", 1, 3), vRange("relationVersion", 4, 6)
	o.Ways[0].Version = wv
	o.Ways[0].User, o.Ways[0].UserID, o.Ways[0].ChangesetID = "wayuser", 11, 111
	rel := &osm.Relation{ID: 40, Version: rv, User: "reluser", UserID: 22, ChangesetID: 222,
		Tags:    osm.Tags{{Key: "type", Value: "multipolygon"}},
		Members: osm.Members{{Type: osm.TypeWay, Ref: 10, Role: "outer"}}}
	if vRange("relationHasOwnTags", 0, 1) == 1 {
		rel.Tags = append(rel.Tags, osm.Tag{Key: "landuse", Value: "forest"})
	}
	o.Relations = append(o.Relations, rel)
	fc, err := Convert(o)
	vReach("converted")
	vAssert(err == nil, "no-error")
	metaOf := func(typ string, id int) map[string]interface{} {
		fs := featuresOf(fc, typ, id)
		if len(fs) == 0 {
			return nil
		}
		m, _ := fs[0].Properties["meta"].(map[string]interface{})
		return m
	}
	if m := metaOf("way", 10); m != nil {
		vAssert(m["version"] == wv && m["user"] == "wayuser" && m["uid"] == osm.UserID(11) && m["changeset"] == osm.ChangesetID(111), "way-feature-carries-way-meta")
	}
	if m := metaOf("relation", 40); m != nil {
		vAssert(m["version"] == rv && m["user"] == "reluser" && m["uid"] == osm.UserID(22) && m["changeset"] == osm.ChangesetID(222), "relation-feature-carries-relation-meta")
	}
	vAssert(metaOf("way", 10) != nil || metaOf("relation", 40) != nil, "area-feature-present")
	if m := metaOf("node", 1); m != nil {
		vAssert(m["version"] == 2 && m["user"] == "u" && m["uid"] == osm.UserID(7) && m["changeset"] == osm.ChangesetID(9), "node-feature-carries-node-meta")
	}
}

// VerifH_C17_identity: feature id string, "type" and "id" properties are those of the
// element, also for ids beyond the 40 bits a packed feature id can hold.
func VerifH_C17_identity() {
	big := int64(1) << 41
	nid, wid, rid := osm.NodeID(big+5), osm.WayID(big+6), osm.RelationID(big+7)
	if vRange("smallIDs", 0, 1) == 1 {
		nid, wid, rid = 5, 6, 7
	}
	o := &osm.OSM{
		Nodes: osm.Nodes{{ID: nid, Version: 1, Lon: 1, Lat: 2, Tags: osm.Tags{{Key: "amenity", Value: "cafe"}}},
			{ID: 2, Version: 1, Lon: 3, Lat: 4}, {ID: 3, Version: 1, Lon: 5, Lat: 6}},
		Ways:      osm.Ways{{ID: wid, Version: 1, Nodes: osm.WayNodes{{ID: 2}, {ID: 3}}, Tags: osm.Tags{{Key: "highway", Value: "path"}}}},
		Relations: osm.Relations{{ID: rid, Version: 1, Tags: osm.Tags{{Key: "type", Value: "route"}}, Members: osm.Members{{Type: osm.TypeWay, Ref: int64(wid)}}}},
	}
	fc, err := Convert(o)
	vReach("converted")
	vAssert(err == nil, "no-error")
	check := func(typ string, id int64) {
		fs := featuresOf(fc, typ, int(id))
		vAssert(len(fs) == 1, "feature-carries-type-and-id-of-its-element")
		if len(fs) == 1 {
			vAssert(fs[0].ID == typ+"/"+vDec(id), "feature-id-string")
		}
	}
	check("node", int64(nid))
	check("way", int64(wid))
	check("relation", int64(rid))
}
