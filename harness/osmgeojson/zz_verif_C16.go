//go:build verif

package osmgeojson

import (
	"github.com/paulmach/orb"
	"github.com/paulmach/orb/geojson"
	"github.com/paulmach/osm"
	"github.com/paulmach/osm/internal/mputil"
)

// Geometry is concrete; the cut positions, piece directions, member order, the
// source of coordinates and the orientation annotations are the explored choices.

type gRing struct {
	pts   []orb.Point // open list of distinct vertices (ring closes back to pts[0]), CCW for outers, CW for inners
	outer bool
}

func gSquare(x, y, s float64, ccw bool) []orb.Point {
	p := []orb.Point{{x, y}, {x + s, y}, {x + s, y + s}, {x, y + s}}
	if !ccw {
		p = []orb.Point{{x, y}, {x, y + s}, {x + s, y + s}, {x + s, y}}
	}
	return p
}

func gPentagon(x, y float64) []orb.Point {
	return []orb.Point{{x, y}, {x + 4, y}, {x + 5, y + 3}, {x + 2, y + 5}, {x - 1, y + 3}}
}

// perm: a permutation of 0..n-1 chosen by successive choices.
func gPerm(n int) []int {
	rest := make([]int, n)
	for i := range rest {
		rest[i] = i
	}
	var out []int
	for len(rest) > 0 {
		k := vRange("perm", 0, len(rest)-1)
		out = append(out, rest[k])
		rest = append(rest[:k:k], rest[k+1:]...)
	}
	return out
}

// gCut: cut the closed ring into pieces at the chosen vertices; piece i runs from
// cut[i] to cut[i+1] inclusive (closing back at the end).
func gCut(pts []orb.Point, cuts []int) []orb.LineString {
	n := len(pts)
	if len(cuts) == 0 {
		ls := append(orb.LineString{}, pts...)
		return []orb.LineString{append(ls, pts[0])}
	}
	var out []orb.LineString
	for i := range cuts {
		from := cuts[i]
		to := cuts[(i+1)%len(cuts)]
		var ls orb.LineString
		for k := from; ; k = (k + 1) % n {
			ls = append(ls, pts[k])
			if k == to && len(ls) > 1 {
				break
			}
		}
		out = append(out, ls)
	}
	return out
}

// gCuts: choose `pieces` cut vertices (increasing).
func gCuts(n, pieces int) []int {
	if pieces <= 1 {
		if vRange("closedWay", 0, 0) == 0 {
			return nil
		}
	}
	var cuts []int
	prev := -1
	for i := 0; i < pieces; i++ {
		c := vRange("cut", prev+1, n-(pieces-i))
		cuts = append(cuts, c)
		prev = c
	}
	return cuts
}

// sameCycle: ring r (closed: first == last) is a rotation of pts (same direction).
func sameCycle(r orb.Ring, pts []orb.Point) bool {
	if len(r) != len(pts)+1 || r[0] != r[len(r)-1] {
		return false
	}
	n := len(pts)
	for s := 0; s < n; s++ {
		ok := true
		for i := 0; i < n; i++ {
			if r[i] != pts[(s+i)%n] {
				ok = false
				break
			}
		}
		if ok {
			return true
		}
	}
	return false
}

// VerifH_C16_joinRing: a pentagon cut into five single-edge pieces, any piece
// directions, any order: Join gives back the one ring with every vertex once.
func VerifH_C16_joinRing() {
	pts := gPentagon(10, 10)
	cuts := []int{0, 1, 2, 3, 4}
	allDirections := true
	if vParam("octagon", 0) == 1 {
		// eight single-edge pieces in every order; directions: all forward or alternating
		pts = []orb.Point{{10, 10}, {14, 10}, {17, 12}, {18, 15}, {16, 18}, {12, 19}, {9, 17}, {8, 13}}
		cuts = []int{0, 1, 2, 3, 4, 5, 6, 7}
		allDirections = false
	}
	pieces := gCut(pts, cuts)
	order := gPerm(len(pieces))
	alternate := !allDirections && vRange("alternateDirections", 0, 1) == 1
	var segs []mputil.Segment
	for i, k := range order {
		ls := append(orb.LineString{}, pieces[k]...)
		if allDirections && vRange("reverse", 0, 1) == 1 || alternate && i%2 == 1 {
			ls.Reverse()
		}
		segs = append(segs, mputil.Segment{Index: uint32(k), Line: ls})
	}
	joined := mputil.Join(segs)
	vReach("joined")
	vAssert(len(joined) == 1, "one-ring")
	if len(joined) != 1 {
		return
	}
	vAssert(len(joined[0]) == len(pieces), "every-piece-used-once")
	ring := joined[0].Ring(orb.CCW)
	vAssert(sameCycle(ring, pts), "ring-is-the-original-ccw")
	cw := joined[0].Ring(orb.CW)
	rev := make([]orb.Point, len(pts))
	for i := range pts {
		rev[i] = pts[len(pts)-1-i]
	}
	vAssert(sameCycle(cw, rev), "ring-cw-on-request")
}

type gPiece struct {
	ring  int
	line  orb.LineString
	wayID osm.WayID
}

// gData builds OSM data for a multipolygon relation from ground-truth rings.
func gData(rings []gRing, maxPieces int) (*osm.OSM, [][]orb.Point) {
	o := &osm.OSM{}
	nodeID := map[orb.Point]osm.NodeID{}
	next := osm.NodeID(1)
	viaNodes := vRange("coordsFromNodeObjects", 0, 1) == 1
	annotate := vRange("orientationAnnotations", 0, 1) == 1
	var members osm.Members
	var all []gPiece
	wid := osm.WayID(100)
	for ri, r := range rings {
		np := vRange("pieces", 1, maxPieces)
		for _, ls := range gCut(r.pts, gCuts(len(r.pts), np)) {
			all = append(all, gPiece{ring: ri, line: ls, wayID: wid})
			wid++
		}
	}
	order := gPerm(len(all))
	var truth [][]orb.Point
	for _, r := range rings {
		truth = append(truth, r.pts)
	}
	for _, k := range order {
		p := all[k]
		ls := append(orb.LineString{}, p.line...)
		reversed := vRange("reverse", 0, 1) == 1
		if reversed {
			ls.Reverse()
		}
		w := &osm.Way{ID: p.wayID, Version: 1, Visible: true}
		for _, pt := range ls {
			id, ok := nodeID[pt]
			if !ok {
				id = next
				next++
				nodeID[pt] = id
				if viaNodes {
					o.Nodes = append(o.Nodes, &osm.Node{ID: id, Version: 1, Visible: true, Lon: pt[0], Lat: pt[1]})
				}
			}
			wn := osm.WayNode{ID: id}
			if !viaNodes {
				wn.Version, wn.Lon, wn.Lat = 1, pt[0], pt[1]
			}
			w.Nodes = append(w.Nodes, wn)
		}
		o.Ways = append(o.Ways, w)
		role := "inner"
		if rings[p.ring].outer {
			role = "outer"
		}
		m := osm.Member{Type: osm.TypeWay, Ref: int64(p.wayID), Role: role}
		if annotate {
			// the direction this way runs around its ring: outers are CCW in the ground
			// truth, inners CW; a reversed piece runs the other way
			dir := orb.CW
			if rings[p.ring].outer {
				dir = orb.CCW
			}
			if reversed {
				dir = -dir
			}
			m.Orientation = dir
		}
		members = append(members, m)
	}
	o.Relations = osm.Relations{{ID: 1, Version: 1, Visible: true, Tags: osm.Tags{{Key: "type", Value: "multipolygon"}, {Key: "landuse", Value: "forest"}}, Members: members}}
	return o, truth
}

func relFeature(fc *geojson.FeatureCollection) *geojson.Feature {
	var out *geojson.Feature
	for _, f := range fc.Features {
		if f.Properties["type"] == "relation" {
			if out != nil {
				return nil
			}
			out = f
		}
	}
	return out
}

// VerifH_C16_multipolygon: rings are recovered for any split, direction, order,
// coordinate source and annotation; every outer gets exactly its own holes.
func VerifH_C16_multipolygon() {
	var rings []gRing
	scene := vRange("scene", vParam("minScene", 0), vParam("maxScene", 2))
	switch scene {
	case 0: // one outer
		rings = []gRing{{pts: gSquare(1, 1, 6, true), outer: true}}
	case 1: // one outer with one hole
		rings = []gRing{{pts: gSquare(1, 1, 6, true), outer: true}, {pts: gSquare(3, 3, 2, false)}}
	case 2: // two outers, one hole each
		rings = []gRing{{pts: gSquare(1, 1, 6, true), outer: true}, {pts: gSquare(3, 3, 2, false)},
			{pts: gSquare(11, 1, 6, true), outer: true}, {pts: gSquare(13, 3, 2, false)}}
	case 3: // a hole whose top vertices share their latitude with the top of another outer to the east
		rings = []gRing{{pts: gSquare(1, 1, 6, true), outer: true}, {pts: gSquare(3, 3, 2, false)},
			{pts: gSquare(11, -1, 6, true), outer: true}}
	case 5: // ... with a vertex of another outer where its boundary passes through that latitude
		rings = []gRing{{pts: gSquare(1, 1, 6, true), outer: true}, {pts: gSquare(3, 3, 2, false)},
			{pts: []orb.Point{{11, 1}, {15, 1}, {17, 3}, {15, 7}, {11, 7}, {9, 5}}, outer: true}}
	case 6: // ... same, other latitude of the hole
		rings = []gRing{{pts: gSquare(1, 1, 6, true), outer: true}, {pts: gSquare(3, 3, 2, false)},
			{pts: []orb.Point{{11, 1}, {15, 1}, {17, 5}, {15, 7}, {11, 7}, {9, 3}}, outer: true}}
	case 4: // ... and with the bottom of another outer to the east
		rings = []gRing{{pts: gSquare(1, 1, 6, true), outer: true}, {pts: gSquare(3, 3, 2, false)},
			{pts: gSquare(11, 3, 6, true), outer: true}}
	}
	o, truth := gData(rings, vParam("maxPieces", 2))
	fc, err := Convert(o)
	vReach("converted")
	vAssert(err == nil, "no-error")
	f := relFeature(fc)
	vAssert(f != nil, "one-relation-feature")
	if f == nil {
		return
	}
	var polys orb.MultiPolygon
	switch g := f.Geometry.(type) {
	case orb.Polygon:
		polys = orb.MultiPolygon{g}
	case orb.MultiPolygon:
		polys = g
	default:
		vAssert(false, "polygonal-geometry")
		return
	}
	nOuter := 0
	for _, r := range rings {
		if r.outer {
			nOuter++
		}
	}
	vAssert(len(polys) == nOuter, "one-polygon-per-outer")
	used := make([]bool, len(rings))
	for _, p := range polys {
		if len(p) == 0 {
			vAssert(false, "polygon-has-outer-ring")
			continue
		}
		// which ground-truth outer is it
		oi := -1
		for i, r := range rings {
			if r.outer && sameCycle(p[0], truth[i]) {
				oi = i
			}
		}
		vAssert(oi >= 0, "outer-ring-is-an-original-ccw")
		if oi < 0 {
			continue
		}
		used[oi] = true
		// its holes: in the scenes the hole of outer i is ring i+1
		wantHoles := 0
		if oi+1 < len(rings) && !rings[oi+1].outer {
			wantHoles = 1
		}
		vAssert(len(p)-1 == wantHoles, "exactly-its-own-holes")
		if wantHoles == 1 && len(p) == 2 {
			vAssert(sameCycle(p[1], truth[oi+1]), "hole-is-the-original-cw")
			used[oi+1] = true
		}
	}
	for i := range rings {
		vAssert(used[i], "no-ring-lost")
	}
}
