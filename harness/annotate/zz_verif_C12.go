//go:build verif

package annotate

import (
	"context"

	"github.com/paulmach/osm"
)

// VerifH_C12_deterministic: two runs on equal input, each with its own hash-map
// iteration order and its own permutation choice inside sort.Sort (any permutation
// consistent with Less), give identical results (or both fail). Child versions may
// share commit times.
func VerifH_C12_deterministic() { c12Run(vRange("refsMode", 1, 2), 2, 1) }

// VerifH_C12_deterministicTies: one child with three versions, so that two updates of
// the same index can share a commit time.
func VerifH_C12_deterministicTies() { c12Run(vRange("refsMode", 0, 0), 1, 3) }

func c12Run(refsMode, nchild, minVersions int) {
	var children []*c11Child
	for i := 0; i < nchild; i++ {
		children = append(children, c11GenChild(int64(100+i), vRange("childVersions", minVersions, vParam("maxChildVersions", 2)), false, true))
	}
	ps := c11GenParents(vRange("parents", 1, vParam("maxParents", 1)), children, refsMode)
	for _, p := range ps {
		for _, r := range p.refs {
			vAssume(children[r].vers[0].committed <= p.committed)
		}
	}
	ways1 := c11Ways(ps)
	ds1 := &c11DS{children: children}
	ways2 := vSnapshot(ways1).(osm.Ways)
	ds2 := vSnapshot(ds1).(*c11DS)
	err1 := Ways(context.Background(), ways1, ds1)
	err2 := Ways(context.Background(), ways2, ds2)
	vReach("annotated-twice")
	vAssert((err1 == nil) == (err2 == nil), "both-succeed-or-both-fail")
	if err1 == nil && err2 == nil {
		vAssert(vSame(ways1, ways2), "identical-results")
		for _, w := range ways1 {
			for i := 1; i < len(w.Updates); i++ {
				a, b := w.Updates[i-1], w.Updates[i]
				if a.Index == b.Index && a.Timestamp.Equal(b.Timestamp) {
					vAssert(a.Version < b.Version, "same-timestamp-versions-oldest-first")
				}
				vAssert(a.Index <= b.Index, "ordered-by-index")
			}
		}
	}
}
