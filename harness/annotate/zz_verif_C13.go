//go:build verif

package annotate

import (
	"context"
	"errors"

	"github.com/paulmach/osm"
)

// C13 harness: annotate.Change over symbolic changes and histories.

var c13Other = errors.New("verif: datasource failure")
var c13NotFound = errors.New("verif: not found")

type c13Elem struct {
	action, kind int // 0 create/modify/delete; 0 node/way/relation
	id           int64
	version      int
	outcome      int // 0 not found, 1 other error, 2.. history of len outcome-1
	hist         []int
	node         *osm.Node
	way          *osm.Way
	rel          *osm.Relation
	hn           osm.Nodes
	hw           osm.Ways
	hr           osm.Relations
}

type c13DS struct{ elems []*c13Elem }

func (d *c13DS) find(kind int, id int64) *c13Elem {
	for _, e := range d.elems {
		if e.kind == kind && e.id == id {
			return e
		}
	}
	return nil
}

func (d *c13DS) NodeHistory(_ context.Context, id osm.NodeID) (osm.Nodes, error) {
	e := d.find(0, int64(id))
	if e == nil || e.outcome == 0 {
		return nil, c13NotFound
	}
	if e.outcome == 1 {
		return nil, c13Other
	}
	return e.hn, nil
}
func (d *c13DS) WayHistory(_ context.Context, id osm.WayID) (osm.Ways, error) {
	e := d.find(1, int64(id))
	if e == nil || e.outcome == 0 {
		return nil, c13NotFound
	}
	if e.outcome == 1 {
		return nil, c13Other
	}
	return e.hw, nil
}
func (d *c13DS) RelationHistory(_ context.Context, id osm.RelationID) (osm.Relations, error) {
	e := d.find(2, int64(id))
	if e == nil || e.outcome == 0 {
		return nil, c13NotFound
	}
	if e.outcome == 1 {
		return nil, c13Other
	}
	return e.hr, nil
}
func (d *c13DS) NotFound(err error) bool { return err == c13NotFound }

func (e *c13Elem) fid() osm.FeatureID {
	switch e.kind {
	case 0:
		return osm.NodeID(e.id).FeatureID()
	case 1:
		return osm.WayID(e.id).FeatureID()
	}
	return osm.RelationID(e.id).FeatureID()
}

// c13Obj returns (element pointer identity via interface, visible flag) of the single
// element in o of the given kind, or ok=false if o does not hold exactly that.
func c13Single(o *osm.OSM, kind int) (osm.Element, bool) {
	if o == nil {
		return nil, false
	}
	switch kind {
	case 0:
		if len(o.Nodes) == 1 && len(o.Ways) == 0 && len(o.Relations) == 0 {
			return o.Nodes[0], true
		}
	case 1:
		if len(o.Ways) == 1 && len(o.Nodes) == 0 && len(o.Relations) == 0 {
			return o.Ways[0], true
		}
	case 2:
		if len(o.Relations) == 1 && len(o.Nodes) == 0 && len(o.Ways) == 0 {
			return o.Relations[0], true
		}
	}
	return nil, false
}

func c13Visible(e osm.Element) bool {
	switch x := e.(type) {
	case *osm.Node:
		return x.Visible
	case *osm.Way:
		return x.Visible
	case *osm.Relation:
		return x.Visible
	}
	return false
}

// VerifH_C13_changeOne: one changed element, full history space.
func VerifH_C13_changeOne() { c13Run(1, 1, vParam("maxHist", 3)) }

// VerifH_C13_changeOrder: several changed elements (order, one action each), short histories.
func VerifH_C13_changeOrder() { c13Run(0, vParam("maxElems", 2), 1) }

// VerifH_C13_sameElementTwice: the same element (one id, one kind) in two slots of one
// change (modify/delete in any combination, any versions), one shared history: each
// action is paired with the predecessor of its own version.
func VerifH_C13_sameElementTwice() { c13RunSame(2, 2, vParam("maxHist", 2), true) }

func c13Run(minElems, maxElems, maxHist int) { c13RunSame(minElems, maxElems, maxHist, false) }

func c13RunSame(minElems, maxElems, maxHist int, same bool) {
	ne := vRange("elements", minElems, maxElems)
	ignore := vRange("ignoreMissing", 0, 1) == 1
	ds := &c13DS{}
	change := &osm.Change{}
	for i := 0; i < ne; i++ {
		e := &c13Elem{action: vRange("action", 0, 2), kind: vRange("kind", 0, 2), id: int64(i + 1), version: vInt("version")}
		vAssume(e.version >= 0) // version numbers are non-negative
		vis := vBool("visibleIn") // whatever the caller left in Visible must not matter
		if same {
			vAssume(e.action > 0)
		}
		if same && i > 0 {
			f := ds.elems[0]
			e.id, e.kind, e.outcome = f.id, f.kind, f.outcome
			e.hist, e.hn, e.hw, e.hr = f.hist, f.hn, f.hw, f.hr
		} else if e.action > 0 {
			e.outcome = vRange("outcome", 0, 1+maxHist)
		}
		for j := 0; j < e.outcome-1 && !(same && i > 0); j++ {
			hv := vInt("hversion")
			vAssume(hv >= 0)
			e.hist = append(e.hist, hv)
			switch e.kind {
			case 0:
				e.hn = append(e.hn, &osm.Node{ID: osm.NodeID(e.id), Version: hv, Visible: true})
			case 1:
				e.hw = append(e.hw, &osm.Way{ID: osm.WayID(e.id), Version: hv, Visible: true})
			case 2:
				e.hr = append(e.hr, &osm.Relation{ID: osm.RelationID(e.id), Version: hv, Visible: true})
			}
		}
		var blk **osm.OSM
		switch e.action {
		case 0:
			blk = &change.Create
		case 1:
			blk = &change.Modify
		default:
			blk = &change.Delete
		}
		if *blk == nil {
			*blk = &osm.OSM{}
		}
		switch e.kind {
		case 0:
			e.node = &osm.Node{ID: osm.NodeID(e.id), Version: e.version, Visible: vis}
			(*blk).Nodes = append((*blk).Nodes, e.node)
		case 1:
			e.way = &osm.Way{ID: osm.WayID(e.id), Version: e.version, Visible: vis}
			(*blk).Ways = append((*blk).Ways, e.way)
		case 2:
			e.rel = &osm.Relation{ID: osm.RelationID(e.id), Version: e.version, Visible: vis}
			(*blk).Relations = append((*blk).Relations, e.rel)
		}
		ds.elems = append(ds.elems, e)
	}

	diff, err := Change(context.Background(), change, ds, IgnoreMissingChildren(ignore))
	vReach("annotated")

	// expected processing order: action, then kind, then input order
	var order []*c13Elem
	for a := 0; a < 3; a++ {
		for k := 0; k < 3; k++ {
			for _, e := range ds.elems {
				if e.action == a && e.kind == k {
					order = append(order, e)
				}
			}
		}
	}
	// first pass: the first element (in processing order) whose lookup fails decides the error
	miss := map[*c13Elem]bool{}
	for _, e := range order {
		if e.action == 0 {
			continue
		}
		nonePred := true
		for j := range e.hist {
			nonePred = vAnd(nonePred, vNot(e.hist[j] < e.version))
		}
		if e.outcome == 1 {
			vAssert(err == c13Other && diff == nil, "other-error-passed-through")
			return
		}
		missing := e.outcome == 0 || nonePred
		miss[e] = missing
		if missing && !ignore {
			nv, ok := err.(*NoVisibleChildError)
			vAssert(ok && diff == nil, "missing-gives-typed-error")
			if ok {
				vAssert(nv.ID == e.fid(), "typed-error-carries-feature-id")
			}
			return
		}
	}
	pos := 0
	for _, e := range order {
		var self osm.Element
		var hl int
		switch e.kind {
		case 0:
			self, hl = e.node, len(e.hn)
		case 1:
			self, hl = e.way, len(e.hw)
		default:
			self, hl = e.rel, len(e.hr)
		}
		missing := miss[e]
		// an action is expected at pos
		if err != nil || diff == nil || pos >= len(diff.Actions) {
			vAssert(false, "action-missing")
			return
		}
		act := diff.Actions[pos]
		pos++
		if e.action == 0 || missing {
			got, ok := c13Single(act.OSM, e.kind)
			vAssert(act.Type == osm.ActionCreate && ok && act.Old == nil && act.New == nil, "create-action-shape")
			if ok {
				vAssert(got == self, "create-action-element")
				vAssert(c13Visible(got), "create-visible")
			}
			continue
		}
		wantType := osm.ActionModify
		if e.action == 2 {
			wantType = osm.ActionDelete
		}
		nw, ok1 := c13Single(act.New, e.kind)
		old, ok2 := c13Single(act.Old, e.kind)
		vAssert(act.Type == wantType && ok1 && ok2 && act.OSM == nil, "update-action-shape")
		if !(ok1 && ok2) {
			return
		}
		vAssert(nw == self, "new-is-the-changed-element")
		vAssert(c13Visible(nw) == (e.action == 1), "new-visibility")
		// old must be a history entry with the greatest version below ours
		k := -1
		for j := 0; j < hl; j++ {
			var h osm.Element
			switch e.kind {
			case 0:
				h = e.hn[j]
			case 1:
				h = e.hw[j]
			default:
				h = e.hr[j]
			}
			if h == old {
				k = j
			}
		}
		vAssert(k >= 0, "old-is-a-history-entry")
		if k >= 0 {
			okPred := e.hist[k] < e.version
			for j := 0; j < hl; j++ {
				okPred = vAnd(okPred, vNot(vAnd(e.hist[j] < e.version, e.hist[j] > e.hist[k])))
			}
			vAssert(okPred, "old-is-greatest-version-below")
		}
	}
	vAssert(err == nil && diff != nil, "no-error")
	if diff != nil {
		vAssert(len(diff.Actions) == pos, "exactly-one-action-per-element")
	}
}
