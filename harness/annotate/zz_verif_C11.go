//go:build verif

package annotate

import (
	"context"
	"errors"
	"time"

	"github.com/paulmach/osm"
)

// C11/C12 harnesses: annotation of ways against symbolic node histories
// (commit-time regime: every time is at or after osm.CommitInfoStart).

const c11Start = int64(1347442203) // osm.CommitInfoStart (2012-09-12T09:30:03Z)
const c11End = int64(4102444800)   // 2100-01-01

type c11Ver struct {
	version   int
	committed int64
	cs        int64
	lat, lon  float64
	visible   bool
	node      *osm.Node
}

type c11Child struct {
	id   osm.NodeID
	vers []c11Ver
	miss bool // history missing
}

type c11DS struct {
	children []*c11Child
	reverse  bool // serve histories newest first (datasources need not sort)
}

var c11NotFound = errors.New("verif: no history")

func (d *c11DS) NodeHistory(_ context.Context, id osm.NodeID) (osm.Nodes, error) {
	for _, c := range d.children {
		if c.id == id {
			if c.miss {
				return nil, c11NotFound
			}
			var ns osm.Nodes
			for i := range c.vers {
				if d.reverse {
					ns = append(ns, c.vers[len(c.vers)-1-i].node)
				} else {
					ns = append(ns, c.vers[i].node)
				}
			}
			return ns, nil
		}
	}
	return nil, c11NotFound
}
func (d *c11DS) NotFound(err error) bool { return err == c11NotFound }

func c11Time(name string) int64 {
	s := vInt64(name)
	vAssume(vAnd(c11Start <= s, s < c11End))
	return s
}

// c11GenChild: a history of n versions with strictly increasing commit times
// (strict=false allows equal commit times: C12's tie case).
func c11GenChild(id int64, n int, strict, allVisible bool) *c11Child {
	c := &c11Child{id: osm.NodeID(id)}
	for i := 0; i < n; i++ {
		v := c11Ver{version: i + 1, committed: c11Time("childCommitted"), cs: vInt64("childCS"), lat: vF64("lat"), lon: vF64("lon"), visible: true}
		if !allVisible {
			v.visible = vBool("childVisible")
		}
		if i > 0 {
			if strict {
				vAssume(c.vers[i-1].committed < v.committed)
			} else {
				vAssume(c.vers[i-1].committed <= v.committed)
			}
		}
		ts := c11Time("childTimestamp")
		vAssume(ts <= v.committed)
		ct := time.Unix(v.committed, 0)
		v.node = &osm.Node{ID: c.id, Version: v.version, ChangesetID: osm.ChangesetID(v.cs), Lat: v.lat, Lon: v.lon,
			Visible: v.visible, Timestamp: time.Unix(ts, 0), Committed: &ct}
		c.vers = append(c.vers, v)
	}
	return c
}

// cur: index of the version current at time t (latest committed <= t), -1 if none.
// Returned as concrete index by forking on the symbolic comparisons.
func (c *c11Child) cur(t int64) int {
	k := -1
	for i := range c.vers {
		if c.vers[i].committed <= t {
			k = i
		}
	}
	return k
}

type c11Parent struct {
	committed int64
	visible   bool
	refs      []int // index into children
	way       *osm.Way
}

func c11GenParents(np int, children []*c11Child, refsMode int) []*c11Parent {
	var ps []*c11Parent
	for i := 0; i < np; i++ {
		p := &c11Parent{committed: c11Time("parentCommitted"), visible: true}
		if i > 0 {
			vAssume(ps[i-1].committed < p.committed)
		}
		switch refsMode {
		case 0: // [a]
			p.refs = []int{0}
		case 1: // [a, b]
			p.refs = []int{0, 1}
		case 2: // a repeated: [a, b, a]
			p.refs = []int{0, 1, 0}
		case 3: // children enter/leave: v1 [a], v2 [a, b]; v1 [a,b], v2 [b]
			if i%2 == 0 {
				p.refs = []int{0}
			} else {
				p.refs = []int{1, 0}
			}
		}
		ct := time.Unix(p.committed, 0)
		ts := c11Time("parentTimestamp")
		vAssume(ts <= p.committed)
		w := &osm.Way{ID: 7, Version: i + 1, Visible: true, ChangesetID: osm.ChangesetID(vInt64("parentCS")), Timestamp: time.Unix(ts, 0), Committed: &ct}
		// a way that was annotated before carries an update list from that run: it is replaced
		w.Updates = osm.Updates{{Index: 0, Version: 77, ChangesetID: 777}}
		for _, r := range p.refs {
			w.Nodes = append(w.Nodes, osm.WayNode{ID: children[r].id})
		}
		p.way = w
		ps = append(ps, p)
	}
	return ps
}

func c11Ways(ps []*c11Parent) osm.Ways {
	var ws osm.Ways
	for _, p := range ps {
		ws = append(ws, p.way)
	}
	return ws
}

// VerifH_C11_commitRegime: child refs carry the version current at the parent's
// commit time; updates are exactly the later versions before the next parent
// version, stamped with their commit time; applying updates up to any t in
// [T_p, T_next) reproduces the version current at t.
func VerifH_C11_commitRegime() {
	refsMode := vRange("refsMode", vParam("minRefsMode", 0), vParam("maxRefsMode", 3))
	nchild := 1
	if refsMode > 0 {
		nchild = 2
	}
	var children []*c11Child
	for i := 0; i < nchild; i++ {
		children = append(children, c11GenChild(int64(100+i), vRange("childVersions", vParam("minChildVersions", 1), vParam("maxChildVersions", 2)), true, true))
	}
	np := vRange("parents", 1, vParam("maxParents", 2))
	ps := c11GenParents(np, children, refsMode)
	// V5: every referenced child exists (is committed) when the parent version is committed
	for _, p := range ps {
		for _, r := range p.refs {
			vAssume(children[r].vers[0].committed <= p.committed)
		}
	}
	ways := c11Ways(ps)
	err := Ways(context.Background(), ways, &c11DS{children: children, reverse: vRange("historyNewestFirst", vParam("minNewestFirst", 0), vParam("maxNewestFirst", 1)) == 1}, Threshold(vParamDuration()))
	vReach("annotated")
	vAssert(err == nil, "no-error")
	if err != nil {
		return
	}
	for pi, p := range ps {
		w := ways[pi]
		next := c11End
		if pi+1 < len(ps) {
			next = ps[pi+1].committed
		}
		// (1) children at the parent's commit time
		for j, r := range p.refs {
			c := children[r]
			k := c.cur(p.committed)
			v := c.vers[k]
			vAssert(vSame(w.Nodes[j], osm.WayNode{ID: c.id, Version: v.version, ChangesetID: osm.ChangesetID(v.cs), Lat: v.lat, Lon: v.lon}), "child-is-version-current-at-parent-commit")
		}
		// (2) updates: for every occurrence j, the versions committed in (T_p, T_next), in version order
		var want osm.Updates
		for j, r := range p.refs {
			c := children[r]
			for i := range c.vers {
				v := c.vers[i]
				if v.committed > p.committed && v.committed < next {
					want = append(want, osm.Update{Index: j, Version: v.version, Timestamp: time.Unix(v.committed, 0),
						ChangesetID: osm.ChangesetID(v.cs), Lat: v.lat, Lon: v.lon})
				}
			}
		}
		vAssert(vSame(w.Updates, want), "updates-are-exactly-the-later-versions")
		// (3) time travel: any t in [T_p, next)
		if vParam("timeTravel", 1) == 0 {
			continue
		}
		t := c11Time("queryTime")
		vAssume(vAnd(p.committed <= t, t < next))
		cp := &osm.Way{ID: w.ID, Nodes: append(osm.WayNodes{}, w.Nodes...), Updates: append(osm.Updates{}, w.Updates...)}
		e2 := cp.ApplyUpdatesUpTo(time.Unix(t, 0))
		vAssert(e2 == nil, "apply-no-error")
		for j, r := range p.refs {
			c := children[r]
			v := c.vers[c.cur(t)]
			vAssert(vSame(cp.Nodes[j], osm.WayNode{ID: c.id, Version: v.version, ChangesetID: osm.ChangesetID(v.cs), Lat: v.lat, Lon: v.lon}), "time-travel-gives-version-current-at-t")
		}
	}
}

func vParamDuration() time.Duration {
	switch vParam("threshold", 0) {
	case 1:
		return 0
	case 2:
		return time.Second
	}
	return 30 * time.Minute
}

// VerifH_C11_errors: deleted parents get no annotations; missing history and
// invisible children give the documented typed errors unless ignored.
func VerifH_C11_errors() {
	scenario := vRange("scenario", 0, 2)
	ignoreMissing := vRange("ignoreMissing", 0, 1) == 1
	ignoreIncons := vRange("ignoreInconsistency", 0, 1) == 1
	a := c11GenChild(100, 2, true, scenario != 2)
	b := c11GenChild(101, 1, true, true)
	children := []*c11Child{a, b}
	ps := c11GenParents(2, children, 1)
	for _, p := range ps {
		for _, r := range p.refs {
			vAssume(children[r].vers[0].committed <= p.committed)
		}
	}
	switch scenario {
	case 0: // first parent version is deleted
		ps[0].way.Visible = false
	case 1: // history of b is missing
		b.miss = true
	case 2: // a is deleted (invisible) when the first parent is committed
		vAssume(a.cur(ps[0].committed) >= 0)
	}
	ways := c11Ways(ps)
	before := vSnapshot(ways[0]).(*osm.Way)
	err := Ways(context.Background(), ways, &c11DS{children: children}, IgnoreMissingChildren(ignoreMissing), IgnoreInconsistency(ignoreIncons))
	vReach("annotated")
	switch scenario {
	case 0:
		vAssert(err == nil, "deleted-parent-no-error")
		// no annotations: the member references stay as they were and no update list is
		// attached (a list left over from an earlier run is dropped, like for every version)
		before.Updates = nil
		vAssert(len(ways[0].Updates) == 0, "deleted-parent-has-no-updates")
		ways[0].Updates = nil
		vAssert(vSame(ways[0], before), "deleted-parent-untouched")
	case 1:
		if ignoreMissing {
			vAssert(err == nil, "missing-history-ignored")
			vAssert(ways[0].Nodes[1].Version == 0, "missing-child-left-unannotated")
		} else {
			nh, ok := err.(*NoHistoryError)
			vAssert(ok, "missing-history-typed-error")
			if ok {
				vAssert(nh.ID == b.id.FeatureID(), "missing-history-error-carries-id")
			}
		}
	case 2:
		k := a.cur(ps[0].committed)
		if !a.vers[k].visible {
			if ignoreIncons {
				vAssert(err == nil, "invisible-child-ignored")
			} else {
				nv, ok := err.(*NoVisibleChildError)
				vAssert(ok, "no-visible-child-typed-error")
				if ok {
					vAssert(nv.ID == a.id.FeatureID(), "no-visible-child-error-carries-id")
				}
			}
		}
	}
}

// VerifH_C11_childFilter: a child filter only exempts references that are already
// annotated; unannotated references are always annotated, in every parent version.
func VerifH_C11_childFilter() {
	a := c11GenChild(100, vRange("childVersions", 1, 2), true, true)
	b := c11GenChild(101, 1, true, true)
	children := []*c11Child{a, b}
	ps := c11GenParents(2, children, 1)
	for _, p := range ps {
		for _, r := range p.refs {
			vAssume(children[r].vers[0].committed <= p.committed)
		}
	}
	// some references arrive already annotated (with a recognisable stale version)
	pre := [2][2]bool{}
	for pi := range ps {
		for j := range ps[pi].refs {
			pre[pi][j] = vBool("preAnnotated")
			if pre[pi][j] {
				ps[pi].way.Nodes[j].Version = 99
				ps[pi].way.Nodes[j].ChangesetID = 77
			}
		}
	}
	keepA, keepB := vBool("filterA"), vBool("filterB")
	filter := func(id osm.FeatureID) bool {
		if id == a.id.FeatureID() {
			return keepA
		}
		return keepB
	}
	ways := c11Ways(ps)
	err := Ways(context.Background(), ways, &c11DS{children: children}, ChildFilter(filter))
	vReach("annotated")
	vAssert(err == nil, "no-error")
	if err != nil {
		return
	}
	for pi, p := range ps {
		for j, r := range p.refs {
			c := children[r]
			keep := keepA
			if r == 1 {
				keep = keepB
			}
			n := ways[pi].Nodes[j]
			if pre[pi][j] && !keep {
				vAssert(n.Version == 99 && n.ChangesetID == 77, "filtered-annotated-reference-left-alone")
			} else {
				v := c.vers[c.cur(p.committed)]
				vAssert(vSame(n, osm.WayNode{ID: c.id, Version: v.version, ChangesetID: osm.ChangesetID(v.cs), Lat: v.lat, Lon: v.lon}), "reference-annotated-with-current-version")
			}
		}
	}
}

// ---- relations

type c11RelDS struct {
	nodes *c11DS
	rels  map[osm.RelationID]osm.Relations
}

func (d *c11RelDS) NodeHistory(ctx context.Context, id osm.NodeID) (osm.Nodes, error) {
	return d.nodes.NodeHistory(ctx, id)
}
func (d *c11RelDS) WayHistory(context.Context, osm.WayID) (osm.Ways, error) { return nil, c11NotFound }
func (d *c11RelDS) RelationHistory(_ context.Context, id osm.RelationID) (osm.Relations, error) {
	if r, ok := d.rels[id]; ok {
		return r, nil
	}
	return nil, c11NotFound
}
func (d *c11RelDS) NotFound(err error) bool { return err == c11NotFound }

// VerifH_C11_relations: the same guarantees for relations whose members are nodes and
// a child relation (members keep type/ref/role; version, changeset and location are
// those of the member version current at the relation's commit time; updates are the
// later member versions).
func VerifH_C11_relations() {
	a := c11GenChild(100, vRange("childVersions", 1, vParam("maxChildVersions", 2)), true, true)
	children := []*c11Child{a}
	// a child relation with two versions (no location)
	sub1c, sub2c := c11Time("subCommitted"), c11Time("subCommitted")
	vAssume(sub1c < sub2c)
	t1, t2 := time.Unix(sub1c, 0), time.Unix(sub2c, 0)
	sub := osm.Relations{
		{ID: 50, Version: 1, Visible: true, ChangesetID: 11, Timestamp: t1, Committed: &t1},
		{ID: 50, Version: 2, Visible: true, ChangesetID: 12, Timestamp: t2, Committed: &t2},
	}
	np := vRange("parents", 1, vParam("maxParents", 2))
	var rels osm.Relations
	var commits []int64
	for i := 0; i < np; i++ {
		c := c11Time("parentCommitted")
		if i > 0 {
			vAssume(commits[i-1] < c)
		}
		vAssume(vAnd(a.vers[0].committed <= c, sub1c <= c))
		commits = append(commits, c)
		ct := time.Unix(c, 0)
		rels = append(rels, &osm.Relation{ID: 7, Version: i + 1, Visible: true, ChangesetID: osm.ChangesetID(vInt64("parentCS")), Timestamp: ct, Committed: &ct,
			Tags: osm.Tags{{Key: "type", Value: "site"}},
			Members: osm.Members{{Type: osm.TypeNode, Ref: int64(a.id), Role: "x"}, {Type: osm.TypeRelation, Ref: 50, Role: "sub"}}})
	}
	ds := &c11RelDS{nodes: &c11DS{children: children}, rels: map[osm.RelationID]osm.Relations{50: sub}}
	err := Relations(context.Background(), rels, ds)
	vReach("annotated")
	vAssert(err == nil, "no-error")
	if err != nil {
		return
	}
	for pi, r := range rels {
		next := c11End
		if pi+1 < len(rels) {
			next = commits[pi+1]
		}
		v := a.vers[a.cur(commits[pi])]
		m := r.Members[0]
		vAssert(m.Type == osm.TypeNode && m.Ref == int64(a.id) && m.Role == "x", "member-identity-kept")
		vAssert(vSame(osm.Member{Version: m.Version, ChangesetID: m.ChangesetID, Lat: m.Lat, Lon: m.Lon},
			osm.Member{Version: v.version, ChangesetID: osm.ChangesetID(v.cs), Lat: v.lat, Lon: v.lon}), "node-member-is-version-current-at-parent-commit")
		subV := 1
		if sub2c <= commits[pi] {
			subV = 2
		}
		vAssert(r.Members[1].Version == subV && r.Members[1].ChangesetID == osm.ChangesetID(10+subV), "relation-member-is-version-current-at-parent-commit")
		var want osm.Updates
		for i := range a.vers {
			x := a.vers[i]
			if x.committed > commits[pi] && x.committed < next {
				want = append(want, osm.Update{Index: 0, Version: x.version, Timestamp: time.Unix(x.committed, 0), ChangesetID: osm.ChangesetID(x.cs), Lat: x.lat, Lon: x.lon})
			}
		}
		if sub2c > commits[pi] && sub2c < next {
			want = append(want, osm.Update{Index: 1, Version: 2, Timestamp: time.Unix(sub2c, 0), ChangesetID: 12})
		}
		vAssert(vSame(r.Updates, want), "updates-are-exactly-the-later-versions")
	}
}

// VerifH_C11_relationErrors: a relation with a node, a way and a relation member; the
// history of one of them is missing from the datasource: NoHistoryError carrying that
// member's id, or, with IgnoreMissingChildren, no error and that member left
// unannotated while the others are annotated.
func VerifH_C11_relationErrors() {
	missing := vRange("missingMember", 0, 2) // 0 node, 1 way, 2 relation
	ignore := vRange("ignoreMissing", 0, 1) == 1
	c := c11Time("memberCommitted")
	pc := c11Time("parentCommitted")
	vAssume(c <= pc)
	ct, pt := time.Unix(c, 0), time.Unix(pc, 0)
	ds := &c11FullDS{
		nodes: map[osm.NodeID]osm.Nodes{1: {{ID: 1, Version: 3, Visible: true, ChangesetID: 31, Timestamp: ct, Committed: &ct}}},
		ways:  map[osm.WayID]osm.Ways{2: {{ID: 2, Version: 4, Visible: true, ChangesetID: 41, Timestamp: ct, Committed: &ct}}},
		rels:  map[osm.RelationID]osm.Relations{3: {{ID: 3, Version: 5, Visible: true, ChangesetID: 51, Timestamp: ct, Committed: &ct}}},
	}
	switch missing {
	case 0:
		delete(ds.nodes, 1)
	case 1:
		delete(ds.ways, 2)
	case 2:
		delete(ds.rels, 3)
	}
	r := &osm.Relation{ID: 7, Version: 1, Visible: true, ChangesetID: 70, Timestamp: pt, Committed: &pt,
		Members: osm.Members{{Type: osm.TypeNode, Ref: 1}, {Type: osm.TypeWay, Ref: 2}, {Type: osm.TypeRelation, Ref: 3}}}
	err := Relations(context.Background(), osm.Relations{r}, ds, IgnoreMissingChildren(ignore))
	vReach("annotated")
	ids := []osm.FeatureID{osm.NodeID(1).FeatureID(), osm.WayID(2).FeatureID(), osm.RelationID(3).FeatureID()}
	if !ignore {
		nh, ok := err.(*NoHistoryError)
		vAssert(ok, "missing-history-typed-error")
		if ok {
			vAssert(nh.ID == ids[missing], "missing-history-error-carries-id")
		}
		return
	}
	vAssert(err == nil, "missing-history-ignored")
	for i, m := range r.Members {
		if i == missing {
			vAssert(m.Version == 0 && m.ChangesetID == 0, "missing-member-left-unannotated")
		} else {
			vAssert(m.Version == 3+i && m.ChangesetID == osm.ChangesetID(31+10*i), "other-members-annotated")
		}
	}
}

type c11FullDS struct {
	nodes map[osm.NodeID]osm.Nodes
	ways  map[osm.WayID]osm.Ways
	rels  map[osm.RelationID]osm.Relations
}

func (d *c11FullDS) NodeHistory(_ context.Context, id osm.NodeID) (osm.Nodes, error) {
	if h, ok := d.nodes[id]; ok {
		return h, nil
	}
	return nil, c11NotFound
}
func (d *c11FullDS) WayHistory(_ context.Context, id osm.WayID) (osm.Ways, error) {
	if h, ok := d.ways[id]; ok {
		return h, nil
	}
	return nil, c11NotFound
}
func (d *c11FullDS) RelationHistory(_ context.Context, id osm.RelationID) (osm.Relations, error) {
	if h, ok := d.rels[id]; ok {
		return h, nil
	}
	return nil, c11NotFound
}
func (d *c11FullDS) NotFound(err error) bool { return err == c11NotFound }

// ---- pre-commit-time regime (no committed times: timestamps + threshold)

const c11PreStart = int64(1104537600) // 2005-01-01
const c11PreEnd = int64(1325376000)   // 2012-01-01 (before osm.CommitInfoStart)

// VerifH_C11_preCommit: histories from before commit times were recorded. When no
// child edit falls within the grouping threshold of a parent edit, the child that
// was current is unambiguous (the latest version stamped before the parent), and
// the same guarantees hold with timestamps in place of commit times.
func VerifH_C11_preCommit() {
	const eps = int64(30 * 60) // default threshold, seconds
	nv := vRange("childVersions", 1, vParam("maxChildVersions", 2))
	a := &c11Child{id: 100}
	for i := 0; i < nv; i++ {
		ts := vInt64("childTimestamp")
		vAssume(vAnd(ts >= c11PreStart, ts < c11PreEnd))
		if i > 0 {
			vAssume(a.vers[i-1].committed < ts)
		}
		v := c11Ver{version: i + 1, committed: ts, cs: vInt64("childCS"), lat: vF64("lat"), lon: vF64("lon"), visible: true}
		v.node = &osm.Node{ID: a.id, Version: v.version, ChangesetID: osm.ChangesetID(v.cs), Lat: v.lat, Lon: v.lon, Visible: true, Timestamp: time.Unix(ts, 0)}
		a.vers = append(a.vers, v)
	}
	np := vRange("parents", 1, vParam("maxParents", 2))
	var ways osm.Ways
	var pts []int64
	for i := 0; i < np; i++ {
		ts := vInt64("parentTimestamp")
		vAssume(vAnd(ts >= c11PreStart+3*eps, ts < c11PreEnd))
		if i > 0 {
			vAssume(pts[i-1]+3*eps < ts)
		}
		// no child edit within the threshold window around this parent edit
		for _, v := range a.vers {
			vAssume(vOr(v.committed < ts-2*eps, v.committed > ts+2*eps))
		}
		pts = append(pts, ts)
		ways = append(ways, &osm.Way{ID: 7, Version: i + 1, Visible: true, ChangesetID: osm.ChangesetID(vInt64("parentCS")), Timestamp: time.Unix(ts, 0),
			Nodes: osm.WayNodes{{ID: a.id}}})
	}
	// the child exists before the first parent version
	vAssume(a.vers[0].committed < pts[0])
	err := Ways(context.Background(), ways, &c11DS{children: []*c11Child{a}})
	vReach("annotated")
	vAssert(err == nil, "no-error")
	if err != nil {
		return
	}
	for pi, w := range ways {
		next := c11PreEnd + 10*eps
		if pi+1 < len(ways) {
			next = pts[pi+1]
		}
		v := a.vers[a.cur(pts[pi])]
		vAssert(vSame(w.Nodes[0], osm.WayNode{ID: a.id, Version: v.version, ChangesetID: osm.ChangesetID(v.cs), Lat: v.lat, Lon: v.lon}), "child-is-version-current-at-parent-timestamp")
		var want osm.Updates
		for i := range a.vers {
			x := a.vers[i]
			if x.committed > pts[pi] && x.committed < next {
				want = append(want, osm.Update{Index: 0, Version: x.version, Timestamp: time.Unix(x.committed, 0), ChangesetID: osm.ChangesetID(x.cs), Lat: x.lat, Lon: x.lon})
			}
		}
		vAssert(vSame(w.Updates, want), "updates-are-exactly-the-later-versions")
	}
}

// c11Grouped: reference for the documented pre-commit-time grouping rule
// (core.ChildList.FindVisible doc comment), all versions visible, strictly
// increasing timestamps: among the versions inside [at-eps, at+eps] that are at or
// before 'at', or after 'at' and of the parent's changeset, the one closest to 'at';
// if there is none, the last version before the window. Returns the index and
// whether a second candidate is equally close (tie: either is accepted).
func (c *c11Child) grouped(at, cs, eps int64) (int, int) {
	best, tie := -1, -1
	bestD := int64(-1)
	for i := range c.vers {
		ts := c.vers[i].committed
		if ts < at-eps {
			if bestD < 0 {
				best = i
			}
			continue
		}
		if ts > at+eps {
			continue
		}
		if ts > at && c.vers[i].cs != cs {
			continue
		}
		d := ts - at
		if d < 0 {
			d = -d
		}
		if bestD < 0 || d < bestD {
			best, tie, bestD = i, -1, d
		} else if d == bestD {
			tie = i
		}
	}
	return best, tie
}

// Pre-commit-time regime with edits inside the grouping window: one node with up to
// maxChildVersions versions (timestamps only, symbolic changesets), up to maxParents way
// versions with symbolic timestamps and changesets, constant threshold eps.
func VerifH_C11_forwardGrouping() {
	eps := int64(vParam("epsSeconds", 1800))
	nv := vRange("childVersions", 1, vParam("maxChildVersions", 3))
	a := &c11Child{id: 100}
	for i := 0; i < nv; i++ {
		ts := vInt64("childTimestamp")
		vAssume(vAnd(ts >= c11PreStart, ts < c11PreEnd))
		if i > 0 {
			vAssume(a.vers[i-1].committed < ts)
		}
		v := c11Ver{version: i + 1, committed: ts, cs: vInt64("childCS"), lat: vF64("lat"), lon: vF64("lon"), visible: true}
		v.node = &osm.Node{ID: a.id, Version: v.version, ChangesetID: osm.ChangesetID(v.cs), Lat: v.lat, Lon: v.lon, Visible: true, Timestamp: time.Unix(ts, 0)}
		a.vers = append(a.vers, v)
	}
	np := vRange("parents", 1, vParam("maxParents", 2))
	var ways osm.Ways
	var pts, pcs []int64
	for i := 0; i < np; i++ {
		ts := vInt64("parentTimestamp")
		vAssume(vAnd(ts >= c11PreStart, ts < c11PreEnd))
		if i > 0 {
			vAssume(pts[i-1] < ts)
		}
		cs := vInt64("parentCS")
		pts = append(pts, ts)
		pcs = append(pcs, cs)
		ways = append(ways, &osm.Way{ID: 7, Version: i + 1, Visible: true, ChangesetID: osm.ChangesetID(cs), Timestamp: time.Unix(ts, 0),
			Nodes: osm.WayNodes{{ID: a.id}}})
	}
	// the node exists when the way is created
	vAssume(a.vers[0].committed <= pts[0])
	err := Ways(context.Background(), ways, &c11DS{children: []*c11Child{a}}, Threshold(time.Duration(eps)*time.Second))
	vReach("annotated")
	vAssert(err == nil, "no-error")
	if err != nil {
		return
	}
	for pi, w := range ways {
		g, tie := a.grouped(pts[pi], pcs[pi], eps)
		v := a.vers[g]
		ok := vSame(w.Nodes[0], osm.WayNode{ID: a.id, Version: v.version, ChangesetID: osm.ChangesetID(v.cs), Lat: v.lat, Lon: v.lon})
		if tie >= 0 {
			v2 := a.vers[tie]
			ok = ok || vSame(w.Nodes[0], osm.WayNode{ID: a.id, Version: v2.version, ChangesetID: osm.ChangesetID(v2.cs), Lat: v2.lat, Lon: v2.lon})
		}
		vAssert(ok, "child-is-the-grouped-version")
		for _, u := range w.Updates {
			vAssert(u.Version > w.Nodes[0].Version, "updates-are-later-versions")
		}
	}
	// time travel: any t at least eps after a way version and more than eps before the next one
	pi := vRange("queriedParent", 0, np-1)
	t := vInt64("queryTime")
	vAssume(vAnd(t >= pts[pi]+eps, t < c11PreEnd+10*eps))
	if pi+1 < np {
		vAssume(t < pts[pi+1]-eps)
	}
	w := ways[pi]
	vAssert(w.ApplyUpdatesUpTo(time.Unix(t, 0)) == nil, "apply-no-error")
	v := a.vers[a.cur(t)]
	vAssert(vSame(w.Nodes[0], osm.WayNode{ID: a.id, Version: v.version, ChangesetID: osm.ChangesetID(v.cs), Lat: v.lat, Lon: v.lon}), "state-at-t-is-version-current-at-t")
}
