//go:build verif

package annotate

import (
	"context"
	"errors"

	"github.com/paulmach/osm"
)

var c14NotFound = errors.New("verif: relation history not found")

type c14Rel struct {
	id      osm.RelationID
	has     bool
	members [][2]int64 // per member: isRelation(0/1), ref
	hist    osm.Relations
}

type c14DS struct {
	rels  []*c14Rel
	calls int
}

func (d *c14DS) RelationHistory(_ context.Context, id osm.RelationID) (osm.Relations, error) {
	d.calls++
	for _, r := range d.rels {
		if r.id == id {
			if !r.has {
				return nil, c14NotFound
			}
			return r.hist, nil
		}
	}
	return nil, c14NotFound
}
func (d *c14DS) NotFound(err error) bool { return err == c14NotFound }

// c14Graph: n relations with ids 1..n (each with or without history, up to two
// versions, up to maxMembers members whose type and ref are symbolic over 1..n+1;
// id n+1 has no history). dag => relation members only point to smaller ids.
func c14Graph(n, maxMembers int, dag bool) *c14DS {
	ds := &c14DS{}
	for i := 1; i <= n; i++ {
		r := &c14Rel{id: osm.RelationID(i), has: vRange("hasHistory", 0, 1) == 1}
		if r.has {
			nv := vRange("versions", 1, vParam("maxVersions", 1))
			for v := 0; v < nv; v++ {
				rel := &osm.Relation{ID: r.id, Version: v + 1, Visible: true}
				nm := vRange("members", 0, maxMembers)
				for k := 0; k < nm; k++ {
					ref := vInt64("ref")
					vAssume(vAnd(ref >= 1, ref <= int64(n+1)))
					isRel := vRange("memberIsRelation", 0, 1)
					typ := osm.TypeWay
					if isRel == 1 {
						typ = osm.TypeRelation
						if dag {
							vAssume(ref < int64(i))
						}
					}
					rel.Members = append(rel.Members, osm.Member{Type: typ, Ref: ref})
					r.members = append(r.members, [2]int64{int64(isRel), ref})
				}
				r.hist = append(r.hist, rel)
			}
		}
		ds.rels = append(ds.rels, r)
	}
	return ds
}

func (d *c14DS) hasHistory(id osm.RelationID) bool {
	ok := false
	for _, r := range d.rels {
		if r.has {
			ok = vOr(ok, r.id == id)
		}
	}
	return ok
}

func c14Requests(n, max int) []osm.RelationID {
	var ids []osm.RelationID
	k := vRange("requests", 1, max)
	for i := 0; i < k; i++ {
		id := vInt64("request")
		vAssume(vAnd(id >= 1, id <= int64(n+1)))
		ids = append(ids, osm.RelationID(id))
	}
	return ids
}

func c14Check(ds *c14DS, req, out []osm.RelationID, dag bool) {
	// no id twice, only ids with history
	for i := range out {
		vAssert(ds.hasHistory(out[i]), "emitted-id-has-history")
		for j := i + 1; j < len(out); j++ {
			vAssert(out[i] != out[j], "no-id-emitted-twice")
		}
	}
	// every requested relation with a history is emitted
	for _, r := range req {
		found := false
		for _, o := range out {
			found = vOr(found, o == r)
		}
		vAssert(vImplies(ds.hasHistory(r), found), "every-requested-relation-with-history-emitted")
	}
	if dag {
		// children (relation members of any version, with history) come before their parent
		for pi, p := range out {
			for _, r := range ds.rels {
				if !r.has {
					continue
				}
				for _, m := range r.members {
					if m[0] != 1 {
						continue
					}
					// if p is r and its member has history, the member was emitted earlier
					before := false
					for k := 0; k < pi; k++ {
						before = vOr(before, int64(out[k]) == m[1])
					}
					need := vAnd(p == r.id, ds.hasHistory(osm.RelationID(m[1])))
					vAssert(vImplies(need, before), "children-before-parents")
				}
			}
		}
	}
}

func c14Run(dag bool) {
	n := vParam("relations", 3)
	ds := c14Graph(n, vParam("maxMembers", 2), dag)
	req := c14Requests(n, vParam("maxRequests", 2))
	o := NewChildFirstOrdering(context.Background(), req, ds)
	var out []osm.RelationID
	for o.Next() {
		out = append(out, o.RelationID())
		if len(out) > n+1 {
			vAssert(false, "more-ids-than-relations")
			break
		}
	}
	vReach("iterated")
	vAssert(o.Err() == nil, "no-error")
	o.Close()
	vQuiesce()
	vAssert(vGoroutines() == 0, "goroutine-terminated")
	c14Check(ds, req, out, dag)
}

// VerifH_C14_dag: acyclic reference graphs: children first.
func VerifH_C14_dag() { c14Run(true) }

// VerifH_C14_cyclic: arbitrary graphs (cycles, self loops): terminates, emits every
// requested relation with history exactly once.
func VerifH_C14_cyclic() { c14Run(false) }

// VerifH_C14_stop: Close or cancel after k Next calls ends the iteration and its goroutine.
func VerifH_C14_stop() {
	n := vParam("relations", 3)
	ds := c14Graph(n, 1, false)
	req := c14Requests(n, 2)
	ctx, cancel := context.WithCancel(context.Background())
	o := NewChildFirstOrdering(ctx, req, ds)
	k := vRange("nextCalls", 0, 2)
	for i := 0; i < k; i++ {
		if !o.Next() {
			break
		}
	}
	byCancel := vRange("byCancel", 0, 1) == 1
	if byCancel {
		cancel()
	} else {
		o.Close()
	}
	vReach("stopped")
	vAssert(!o.Next(), "next-false-after-stop")
	o.Close()
	vQuiesce()
	vAssert(vGoroutines() == 0, "goroutine-terminated")
	cancel()
}
