//go:build verif

package annotate

import (
	"time"

	"github.com/paulmach/orb"
	"github.com/paulmach/osm"
)

func c16Square(x, y, s float64, ccw bool) []orb.Point {
	p := []orb.Point{{x, y}, {x + s, y}, {x + s, y + s}, {x, y + s}}
	if !ccw {
		p = []orb.Point{{x, y}, {x, y + s}, {x + s, y + s}, {x + s, y}}
	}
	return p
}

func c16Cut(pts []orb.Point, cuts []int) []orb.LineString {
	n := len(pts)
	if len(cuts) == 0 {
		ls := append(orb.LineString{}, pts...)
		return []orb.LineString{append(ls, pts[0])}
	}
	var out []orb.LineString
	for i := range cuts {
		from, to := cuts[i], cuts[(i+1)%len(cuts)]
		var ls orb.LineString
		for k := from; ; k = (k + 1) % n {
			ls = append(ls, pts[k])
			if k == to && len(ls) > 1 {
				break
			}
		}
		out = append(out, ls)
	}
	return out
}

// VerifH_C16_orientation: annotating a multipolygon marks every way member with the
// direction in which that way runs around its ring, for any split, piece direction
// and member order.
func VerifH_C16_orientation() {
	type ring struct {
		pts   []orb.Point
		outer bool
	}
	rings := []ring{{c16Square(1, 1, 6, true), true}, {c16Square(3, 3, 2, false), false}}
	type piece struct {
		ring int
		line orb.LineString
	}
	var all []piece
	for ri, r := range rings {
		maxP := vParam("maxPieces", 3)
		if r.outer && vParam("outerAllEdges", 0) == 1 {
			maxP = len(r.pts)
		}
		np := vRange("pieces", 1, maxP)
		if r.outer && vParam("outerAllEdges", 0) == 1 {
			np = len(r.pts) // every edge is its own way
		}
		var cuts []int
		prev := -1
		if np > 1 {
			for i := 0; i < np; i++ {
				c := vRange("cut", prev+1, len(r.pts)-(np-i))
				cuts = append(cuts, c)
				prev = c
			}
		}
		for _, ls := range c16Cut(r.pts, cuts) {
			all = append(all, piece{ri, ls})
		}
	}
	// member order
	rest := make([]int, len(all))
	for i := range rest {
		rest[i] = i
	}
	var order []int
	for len(rest) > 0 {
		k := vRange("perm", 0, len(rest)-1)
		order = append(order, rest[k])
		rest = append(rest[:k:k], rest[k+1:]...)
	}
	ways := map[osm.WayID]*osm.Way{}
	var members osm.Members
	var want []orb.Orientation
	for i, k := range order {
		p := all[k]
		ls := append(orb.LineString{}, p.line...)
		reversed := vRange("reverse", 0, 1) == 1
		if reversed {
			ls.Reverse()
		}
		w := &osm.Way{ID: osm.WayID(100 + i), Version: 1, Visible: true}
		for j, pt := range ls {
			w.Nodes = append(w.Nodes, osm.WayNode{ID: osm.NodeID(1000*i + j), Version: 1, Lon: pt[0], Lat: pt[1]})
		}
		ways[w.ID] = w
		role, dir := "inner", orb.CW
		if rings[p.ring].outer {
			role, dir = "outer", orb.CCW
		}
		if reversed {
			dir = -dir
		}
		// members may arrive with a stale annotation; it must be overwritten
		members = append(members, osm.Member{Type: osm.TypeWay, Ref: int64(w.ID), Role: role})
		want = append(want, dir)
	}
	tainted := orientation(members, ways, time.Unix(2000000000, 0))
	vReach("annotated")
	vAssert(!tainted, "not-tainted")
	for i := range members {
		vAssert(members[i].Orientation == want[i], "member-marked-with-its-direction-around-the-ring")
	}
}
