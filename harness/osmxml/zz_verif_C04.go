//go:build verif

package osmxml

import (
	"bytes"
	"context"
	"encoding/xml"

	"github.com/paulmach/osm"
)

// VerifH_C04_scanMarshalled: what the real marshallers write for an OSM, a Change or a
// Diff is read back by the streaming scanner: it yields exactly the contained
// elements in the order they were written.
func VerifH_C04_scanMarshalled() {
	buf := &bytes.Buffer{}
	enc := xml.NewEncoder(buf)
	var want []osm.Object
	mk := func(kind int, id int64) osm.Object {
		_, o := c03Object(kind, id)
		return o
	}
	var err error
	switch vRange("container", 0, 2) {
	case 0:
		o := &osm.OSM{Version: "0.6"}
		n := vRange("elements", 0, 2)
		for i := 0; i < n; i++ {
			o.Append(mk(1+vRange("kind", 0, 5), int64(i))) // ids from 0: zero is a legal id
		}
		// the marshaller writes nodes, ways, relations, changesets, notes, users
		for _, x := range o.Nodes {
			want = append(want, x)
		}
		for _, x := range o.Ways {
			want = append(want, x)
		}
		for _, x := range o.Relations {
			want = append(want, x)
		}
		for _, x := range o.Changesets {
			want = append(want, x)
		}
		for _, x := range o.Notes {
			want = append(want, x)
		}
		for _, x := range o.Users {
			want = append(want, x)
		}
		err = enc.Encode(o)
	case 1:
		c := &osm.Change{}
		for b := 0; b < 3; b++ {
			if vRange("hasBlock", 0, 1) == 1 {
				e := mk(1+vRange("kind", 0, 2), int64(b+1))
				switch b {
				case 0:
					c.AppendCreate(e)
				case 1:
					c.AppendModify(e)
				default:
					c.AppendDelete(e)
				}
				want = append(want, e)
			}
		}
		err = enc.Encode(c)
	case 2:
		d := &osm.Diff{}
		n := vRange("actions", 0, 2)
		for i := 0; i < n; i++ {
			typ := []osm.ActionType{osm.ActionCreate, osm.ActionModify, osm.ActionDelete}[vRange("type", 0, 2)]
			a := osm.Action{Type: typ}
			kind := 1 + vRange("kind", 0, 2)
			if typ == osm.ActionCreate {
				e := mk(kind, int64(10*i+1))
				a.OSM = &osm.OSM{}
				a.OSM.Append(e)
				want = append(want, e)
			} else {
				e1, e2 := mk(kind, int64(10*i+1)), mk(kind, int64(10*i+2))
				a.Old, a.New = &osm.OSM{}, &osm.OSM{}
				a.Old.Append(e1)
				a.New.Append(e2)
				want = append(want, e1, e2)
			}
			d.Actions = append(d.Actions, a)
		}
		err = enc.Encode(d)
	}
	vReach("marshalled")
	vAssert(err == nil, "no-error")
	sc := New(context.Background(), vXMLStream(vXMLTokens(enc, buf)))
	var got []osm.Object
	for sc.Scan() {
		got = append(got, sc.Object())
		if len(got) > len(want) {
			break
		}
	}
	vAssert(sc.Err() == nil, "scanner-no-error")
	vAssert(vSame(got, want), "scanner-yields-the-marshalled-elements-in-order")
}
