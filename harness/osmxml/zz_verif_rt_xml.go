//go:build verif

package osmxml

// XML harness runtime (native twin of the engine's Encoder / token Decoder stubs).

import (
	"bytes"
	"encoding/xml"
	"io"
	"regexp"
)

type vXMLAttr struct{ Name, Value string }

// vXMLEvent is one start element seen in an encoder's output.
type vXMLEvent struct {
	Depth int
	Name  string
	Attrs []vXMLAttr
}

// vXMLLog lists the start elements written so far, down to maxDepth. Natively the
// encoder output (buf) is tokenised by the real decoder.
func vXMLLog(e *xml.Encoder, buf *bytes.Buffer, maxDepth int) []vXMLEvent {
	e.Flush()
	d := xml.NewDecoder(bytes.NewReader(buf.Bytes()))
	var out []vXMLEvent
	depth := 0
	for {
		t, err := d.Token()
		if err == io.EOF {
			break
		}
		if err != nil {
			out = append(out, vXMLEvent{Depth: -1, Name: "!unbalanced"})
			break
		}
		switch x := t.(type) {
		case xml.StartElement:
			if depth <= maxDepth {
				ev := vXMLEvent{Depth: depth, Name: x.Name.Local}
				for _, a := range x.Attr {
					ev.Attrs = append(ev.Attrs, vXMLAttr{a.Name.Local, a.Value})
				}
				out = append(out, ev)
			}
			depth++
		case xml.EndElement:
			depth--
		}
	}
	if depth != 0 {
		out = append(out, vXMLEvent{Depth: -1, Name: "!unbalanced"})
	}
	return out
}

// vXMLTokens: what the encoder wrote so far, as a token stream for vXMLStream.
// Natively that is the real text; symbolically container start/end tokens as written
// and one atomic token (with the encoded value as its model) per element that was
// handed to the reflection encoder.
func vXMLTokens(e *xml.Encoder, buf *bytes.Buffer) []vXMLTok {
	e.Flush()
	return []vXMLTok{{Kind: 6, Name: buf.String()}}
}

// vXMLTok: Kind 0 start, 1 end, 2 character data, 3 comment, 4 malformed rest.
// A start token with a Model stands for the whole element holding that value.
// Kind 5 is a hook: when the reader gets there, Hook is called (e.g. to cancel a context).
type vXMLTok struct {
	Kind  int
	Name  string
	Attrs []vXMLAttr
	Model interface{}
	Hook  func()
}

type vTokReader struct {
	toks  []vXMLTok
	data  []byte
	pos   int
	hooks map[int]func() // byte offset -> hook
}

// Read serves the text up to the next hook position; the hook runs when the
// consumer comes back for more.
func (t *vTokReader) Read(p []byte) (int, error) {
	if h, ok := t.hooks[t.pos]; ok {
		delete(t.hooks, t.pos)
		h()
	}
	if t.pos >= len(t.data) {
		return 0, io.EOF
	}
	end := len(t.data)
	for off := range t.hooks {
		if off > t.pos && off < end {
			end = off
		}
	}
	n := copy(p, t.data[t.pos:end])
	t.pos += n
	return n, nil
}

var vXMLOuter = regexp.MustCompile(`^<([A-Za-z_][A-Za-z0-9_.-]*)`)

// vXMLStream turns the token list into a reader (natively: real XML text).
func vXMLStream(toks []vXMLTok) io.Reader {
	var buf bytes.Buffer
	enc := xml.NewEncoder(&buf)
	hooks := map[int]func(){}
	for _, t := range toks {
		start := xml.StartElement{Name: xml.Name{Local: t.Name}}
		for _, a := range t.Attrs {
			start.Attr = append(start.Attr, xml.Attr{Name: xml.Name{Local: a.Name}, Value: a.Value})
		}
		stop := false
		switch t.Kind {
		case 0:
			if t.Model != nil {
				// the element is written on its own; a marshaller that forces its own element
				// name (OSM writes <osm>) is renamed to the name the token stream asks for
				var mb bytes.Buffer
				me := xml.NewEncoder(&mb)
				if err := me.EncodeElement(t.Model, start); err != nil {
					panic(err)
				}
				me.Flush()
				b := mb.Bytes()
				if m := vXMLOuter.FindSubmatch(b); m != nil && string(m[1]) != t.Name {
					was := string(m[1])
					b = append([]byte("<"+t.Name), b[1+len(was):]...)
					if bytes.HasSuffix(b, []byte("</"+was+">")) {
						b = append(b[:len(b)-len(was)-3], []byte("</"+t.Name+">")...)
					}
				}
				enc.Flush()
				buf.Write(b)
			} else {
				enc.EncodeToken(start)
			}
		case 1:
			enc.EncodeToken(xml.EndElement{Name: xml.Name{Local: t.Name}})
		case 2:
			enc.EncodeToken(xml.CharData(t.Name))
		case 3:
			enc.EncodeToken(xml.Comment(t.Name))
		case 5:
			enc.Flush()
			hooks[buf.Len()] = t.Hook
		case 6: // raw text (what an encoder wrote, see vXMLTokens)
			enc.Flush()
			buf.WriteString(t.Name)
		default:
			// malformed rest: an end tag that closes nothing
			enc.Flush()
			buf.WriteString("</verif-malformed>")
			stop = true
		}
		if stop {
			break
		}
	}
	enc.Flush()
	return &vTokReader{toks: toks, data: buf.Bytes(), hooks: hooks}
}
