//go:build verif

package osmxml

import (
	"context"
	"encoding/xml"

	"github.com/paulmach/osm"
)

// c03Object: an element of one of the seven kinds with its XML element name.
func c03Object(kind int, id int64) (string, osm.Object) {
	switch kind {
	case 0:
		return "bounds", &osm.Bounds{MinLat: 1, MaxLat: 2, MinLon: float64(id), MaxLon: 40}
	case 1:
		return "node", &osm.Node{ID: osm.NodeID(id), Version: 1, Visible: true}
	case 2:
		return "way", &osm.Way{ID: osm.WayID(id), Version: 1, Visible: true}
	case 3:
		return "relation", &osm.Relation{ID: osm.RelationID(id), Version: 1, Visible: true}
	case 4:
		return "changeset", &osm.Changeset{ID: osm.ChangesetID(id)}
	case 5:
		return "note", &osm.Note{ID: osm.NoteID(id)}
	}
	return "user", &osm.User{ID: osm.UserID(id)}
}

// VerifH_C03_scanStream: the streaming scanner yields, in document order, exactly
// the objects whose elements appear anywhere in the document (inside <osm>, inside
// repeated / interleaved osmChange action blocks, inside diff actions), skipping
// character data, comments and unknown elements, and stops at a malformed rest.
func VerifH_C03_scanStream() {
	doc := vRange("document", 0, 2) // 0 osm, 1 osmChange, 2 augmented diff
	var toks []vXMLTok
	var want []osm.Object
	obj := func() {
		kind := 1
		if len(want) == 0 {
			kind = vRange("kind", 0, 6)
		} else {
			kind = []int{1, 3, 4}[vRange("laterKind", 0, 2)]
		}
		name, o := c03Object(kind, int64(len(want)+1))
		toks = append(toks, vXMLTok{Kind: 0, Name: name, Model: o})
		want = append(want, o)
	}
	noise := func() {
		if len(want) > 0 {
			return
		}
		switch vRange("noise", 0, 3) {
		case 1:
			toks = append(toks, vXMLTok{Kind: 2, Name: "\n  "})
		case 2:
			toks = append(toks, vXMLTok{Kind: 3, Name: " a comment "})
		case 3:
			toks = append(toks, vXMLTok{Kind: 0, Name: "meta"}, vXMLTok{Kind: 1, Name: "meta"})
		}
	}
	n := vRange("objects", 0, vParam("maxObjects", 2))
	switch doc {
	case 0:
		toks = append(toks, vXMLTok{Kind: 0, Name: "osm", Attrs: []vXMLAttr{{"version", "0.6"}}})
		for i := 0; i < n; i++ {
			noise()
			obj()
		}
		toks = append(toks, vXMLTok{Kind: 1, Name: "osm"})
	case 1:
		toks = append(toks, vXMLTok{Kind: 0, Name: "osmChange"})
		for i := 0; i < n; i++ {
			block := []string{"create", "modify", "delete"}[vRange("block", 0, 2)]
			toks = append(toks, vXMLTok{Kind: 0, Name: block})
			noise()
			obj()
			toks = append(toks, vXMLTok{Kind: 1, Name: block})
		}
		toks = append(toks, vXMLTok{Kind: 1, Name: "osmChange"})
	case 2:
		toks = append(toks, vXMLTok{Kind: 0, Name: "osm"})
		if n > 1 {
			n = 1
		}
		for i := 0; i < n; i++ {
			toks = append(toks, vXMLTok{Kind: 0, Name: "action", Attrs: []vXMLAttr{{"type", "modify"}}}, vXMLTok{Kind: 0, Name: "old"})
			obj()
			toks = append(toks, vXMLTok{Kind: 1, Name: "old"}, vXMLTok{Kind: 0, Name: "new"})
			obj()
			toks = append(toks, vXMLTok{Kind: 1, Name: "new"}, vXMLTok{Kind: 1, Name: "action"})
		}
		toks = append(toks, vXMLTok{Kind: 1, Name: "osm"})
	}
	malformed := vRange("malformedTail", 0, 1) == 1
	if malformed {
		toks = append(toks, vXMLTok{Kind: 4})
	}
	sc := New(context.Background(), vXMLStream(toks))
	var got []osm.Object
	for sc.Scan() {
		got = append(got, sc.Object())
		if len(got) > len(want) {
			break
		}
	}
	vReach("scanned")
	vAssert(vSame(got, want), "exactly-the-document-objects-in-document-order")
	if malformed {
		vAssert(sc.Err() != nil, "malformed-rest-is-an-error")
	} else {
		vAssert(sc.Err() == nil, "no-error-on-well-formed-document")
	}
	vAssert(!sc.Scan(), "scan-false-after-end")
}

// VerifH_C03_scanStop: Close / cancel: later Scan false, Err precedence, and no further token is read.
func VerifH_C03_scanStop() {
	var toks []vXMLTok
	toks = append(toks, vXMLTok{Kind: 0, Name: "osm"})
	for i := 0; i < 3; i++ {
		_, o := c03Object(1, int64(i+1))
		toks = append(toks, vXMLTok{Kind: 0, Name: "node", Model: o})
	}
	toks = append(toks, vXMLTok{Kind: 1, Name: "osm"})
	ctx, cancel := context.WithCancel(context.Background())
	sc := New(ctx, vXMLStream(toks))
	k := vRange("scansBeforeStop", 0, 3)
	for i := 0; i < k; i++ {
		vAssert(sc.Scan(), "scan-before-stop")
	}
	byCancel := vRange("byCancel", 0, 1) == 1
	if byCancel {
		cancel()
	} else {
		vAssert(sc.Close() == nil, "close-returns-nil")
	}
	vReach("stopped")
	vAssert(!sc.Scan(), "scan-false-after-stop")
	vAssert(!sc.Scan(), "scan-false-forever")
	if byCancel {
		vAssert(sc.Err() == context.Canceled, "err-is-context-error")
	} else {
		vAssert(sc.Err() == osm.ErrScannerClosed, "err-is-scanner-closed")
	}
	cancel()
}

// VerifH_C03_cancelMidScan: the context is cancelled (or the scanner closed) while
// Scan is working through a run of elements it skips: Scan must not go on to deliver
// a later object.
func VerifH_C03_cancelMidScan() {
	ctx, cancel := context.WithCancel(context.Background())
	var sc *Scanner
	byClose := vRange("byClose", 0, 1) == 1
	stop := func() {
		if byClose {
			sc.Close()
		} else {
			cancel()
		}
	}
	toks := []vXMLTok{{Kind: 0, Name: "osm"}}
	_, first := c03Object(1, 1)
	toks = append(toks, vXMLTok{Kind: 0, Name: "node", Model: first})
	before := vRange("skippedBefore", 0, 2)
	for i := 0; i < before; i++ {
		toks = append(toks, vXMLTok{Kind: 0, Name: "meta"}, vXMLTok{Kind: 1, Name: "meta"})
	}
	toks = append(toks, vXMLTok{Kind: 5, Hook: stop})
	for i := 0; i < 2; i++ {
		toks = append(toks, vXMLTok{Kind: 0, Name: "meta"}, vXMLTok{Kind: 1, Name: "meta"})
	}
	_, later := c03Object(1, 2)
	toks = append(toks, vXMLTok{Kind: 0, Name: "node", Model: later}, vXMLTok{Kind: 1, Name: "osm"})
	sc = New(ctx, vXMLStream(toks))
	vAssert(sc.Scan(), "first-object")
	ok := sc.Scan() // runs into the stop while skipping elements
	vReach("stopped-mid-scan")
	vAssert(!ok, "no-object-delivered-after-the-stop")
	vAssert(!sc.Scan(), "scan-false-forever")
	if byClose {
		vAssert(sc.Err() == osm.ErrScannerClosed, "err-is-scanner-closed")
	} else {
		vAssert(sc.Err() == context.Canceled, "err-is-context-error")
	}
	cancel()
}

// VerifH_C03_wholeDocument: decoding the whole document at once (xml.Decoder.Decode
// into osm.OSM / osm.Change / osm.Diff) yields exactly the elements written in it, in
// the containers the document puts them in, and the streaming scanner yields the same
// objects in document order. Containers (<osm>, <osmChange>, <create>/<modify>/<delete>,
// <action>, <old>/<new>) are real token sequences with character data, comments and
// unknown elements between and inside them; leaf elements are atomic.
func VerifH_C03_wholeDocument() {
	doc := vRange("document", 0, 2) // 0 osm, 1 osmChange, 2 augmented diff
	var toks []vXMLTok
	var order []osm.Object
	// one kind of noise per document, at every place where noise may stand
	noiseKind := vRange("noise", 0, 3)
	noise := func() {
		switch noiseKind {
		case 1:
			toks = append(toks, vXMLTok{Kind: 2, Name: "\n  "})
		case 2:
			toks = append(toks, vXMLTok{Kind: 3, Name: " a comment "})
		case 3:
			toks = append(toks, vXMLTok{Kind: 0, Name: "meta"}, vXMLTok{Kind: 1, Name: "meta"})
		}
	}
	n := vRange("objects", 0, vParam("maxObjects", 2))
	switch doc {
	case 0:
		want := &osm.OSM{Version: "0.6", Generator: "g"}
		toks = append(toks, vXMLTok{Kind: 0, Name: "osm", Attrs: []vXMLAttr{{"generator", "g"}, {"version", "0.6"}}})
		for i := 0; i < n; i++ {
			noise()
			name, o := c03Object(vRange("kind", 0, 6), int64(i)) // ids from 0: zero is a legal id
			toks = append(toks, vXMLTok{Kind: 0, Name: name, Model: o})
			order = append(order, o)
			switch x := o.(type) {
			case *osm.Bounds:
				want.Bounds = x // the last bounds element wins
			default:
				want.Append(o)
			}
		}
		noise()
		toks = append(toks, vXMLTok{Kind: 1, Name: "osm"})
		got := &osm.OSM{}
		err := xml.NewDecoder(vXMLStream(append([]vXMLTok{}, toks...))).Decode(got)
		vReach("decoded")
		vAssert(err == nil, "no-error")
		vAssert(vSame(got, want), "whole-document-decode-yields-exactly-the-written-elements")
	case 1:
		want := &osm.Change{Version: "0.6"}
		toks = append(toks, vXMLTok{Kind: 0, Name: "osmChange", Attrs: []vXMLAttr{{"version", "0.6"}}})
		for i := 0; i < n; i++ {
			noise()
			blk := vRange("block", 0, 2)
			toks = append(toks, vXMLTok{Kind: 0, Name: []string{"create", "modify", "delete"}[blk]})
			dst := []**osm.OSM{&want.Create, &want.Modify, &want.Delete}[blk]
			if *dst == nil {
				*dst = &osm.OSM{}
			}
			m := vRange("inBlock", 0, 2)
			for j := 0; j < m; j++ {
				noise()
				name, o := c03Object(1+vRange("kind", 0, 2), int64(10*i+j+1))
				toks = append(toks, vXMLTok{Kind: 0, Name: name, Model: o})
				order = append(order, o)
				(*dst).Append(o)
			}
			toks = append(toks, vXMLTok{Kind: 1, Name: []string{"create", "modify", "delete"}[blk]})
		}
		toks = append(toks, vXMLTok{Kind: 1, Name: "osmChange"})
		got := &osm.Change{}
		err := xml.NewDecoder(vXMLStream(append([]vXMLTok{}, toks...))).Decode(got)
		vReach("decoded")
		vAssert(err == nil, "no-error")
		vAssert(vSame(got, want), "whole-document-decode-yields-exactly-the-written-elements")
	case 2:
		want := &osm.Diff{}
		toks = append(toks, vXMLTok{Kind: 0, Name: "osm"})
		if n > 2 {
			n = 2
		}
		for i := 0; i < n; i++ {
			noise()
			typ := []osm.ActionType{osm.ActionCreate, osm.ActionModify, osm.ActionDelete}[vRange("action", 0, 2)]
			// container attributes: <action> may carry more than its type, <old>/<new> their own
			cattr := vRange("containerAttributes", 0, 1) == 1
			aattrs := []vXMLAttr{{"type", string(typ)}}
			if cattr {
				aattrs = append(aattrs, vXMLAttr{"generator", "ag"})
			}
			toks = append(toks, vXMLTok{Kind: 0, Name: "action", Attrs: aattrs})
			a := osm.Action{Type: typ}
			if typ == osm.ActionCreate {
				noise()
				name, o := c03Object(1+vRange("kind", 0, 2), int64(10*i+1))
				toks = append(toks, vXMLTok{Kind: 0, Name: name, Model: o})
				order = append(order, o)
				a.OSM = &osm.OSM{}
				a.OSM.Append(o)
			} else {
				kind := 1 + vRange("kind", 0, 2)
				noise()
				oldTok, newTok := vXMLTok{Kind: 0, Name: "old"}, vXMLTok{Kind: 0, Name: "new"}
				if cattr {
					oldTok.Attrs = []vXMLAttr{{"generator", "og"}}
					newTok.Attrs = []vXMLAttr{{"version", "nv"}}
				}
				toks = append(toks, oldTok)
				noise()
				name, o1 := c03Object(kind, int64(10*i+1))
				toks = append(toks, vXMLTok{Kind: 0, Name: name, Model: o1})
				noise()
				toks = append(toks, vXMLTok{Kind: 1, Name: "old"}, newTok)
				noise()
				_, o2 := c03Object(kind, int64(10*i+2))
				toks = append(toks, vXMLTok{Kind: 0, Name: name, Model: o2}, vXMLTok{Kind: 1, Name: "new"})
				order = append(order, o1, o2)
				a.Old, a.New = &osm.OSM{}, &osm.OSM{}
				if cattr {
					a.Old.Generator, a.New.Version = "og", "nv"
				}
				a.Old.Append(o1)
				a.New.Append(o2)
			}
			toks = append(toks, vXMLTok{Kind: 1, Name: "action"})
			want.Actions = append(want.Actions, a)
		}
		toks = append(toks, vXMLTok{Kind: 1, Name: "osm"})
		got := &osm.Diff{}
		err := xml.NewDecoder(vXMLStream(append([]vXMLTok{}, toks...))).Decode(got)
		vReach("decoded")
		vAssert(err == nil, "no-error")
		vAssert(vSame(got.Actions, want.Actions), "whole-document-decode-yields-exactly-the-written-elements")
	}
	// the streaming scanner over the same document
	sc := New(context.Background(), vXMLStream(toks))
	var scanned []osm.Object
	for sc.Scan() {
		scanned = append(scanned, sc.Object())
		if len(scanned) > len(order) {
			break
		}
	}
	vAssert(sc.Err() == nil, "scanner-no-error")
	vAssert(vSame(scanned, order), "scanner-yields-the-same-objects-in-document-order")
}
