//go:build verif

package osmpbf

import (
	"context"

	"github.com/paulmach/osm"
)

type c09File struct {
	f       *mFile
	want    []osm.Object
	blockOf []int
}

func c09Build(nb, maxNodes int, header bool) *c09File {
	c := &c09File{f: &mFile{hasHeader: header, header: simpleHeader()}}
	for b := 0; b < nb; b++ {
		m := simpleBlock(vRange("nodesInBlock", 0, maxNodes))
		c.f.blocks = append(c.f.blocks, m)
		for _, o := range m.expected() {
			c.want = append(c.want, o)
			c.blockOf = append(c.blockOf, b)
		}
	}
	c.f.build()
	return c
}

func (c *c09File) blockOffset(b int) int64 {
	if c.f.hasHeader {
		return c.f.offsets[b+1]
	}
	return c.f.offsets[b]
}

// VerifH_C09_offsets: after every Scan the reported byte counts are the offsets of
// the block of the returned object and of the block that was current before it.
func VerifH_C09_offsets() {
	procs := vRange("procs", 1, vParam("maxProcs", 2))
	nb := vRange("blocks", 1, vParam("maxBlocks", 2))
	c := c09Build(nb, vParam("maxNodes", 2), true)
	sc := New(context.Background(), &vReader{data: c.f.data}, procs)
	i := 0
	// the consumer's view: offsets of the blocks taken so far, including empty ones
	cur, prev := int64(0), int64(0)
	lastBlock := -1
	for sc.Scan() {
		if i >= len(c.want) {
			vAssert(false, "too-many-objects")
			break
		}
		vAssert(vSame(sc.Object(), c.want[i]), "object-in-file-order")
		b := c.blockOf[i]
		// every block between the last one and b (empty ones included) was taken in turn
		for k := lastBlock + 1; k <= b; k++ {
			prev, cur = cur, c.blockOffset(k)
		}
		lastBlock = b
		vAssert(sc.FullyScannedBytes() == c.blockOffset(b), "fully-scanned-is-offset-of-current-block")
		vAssert(sc.FullyScannedBytes() == cur, "fully-scanned-model")
		vAssert(sc.PreviousFullyScannedBytes() == prev, "previous-is-value-current-during-preceding-block")
		i++
	}
	vReach("scanned")
	vAssert(sc.Err() == nil, "no-error")
	vAssert(i == len(c.want), "all-objects-delivered")
	sc.Close()
	vQuiesce()
	vAssert(vGoroutines() == 0, "goroutines-terminated")
}

// VerifH_C09_resume: stop after k objects, start a new scanner at the reported offset
// (first block is then a data block): it yields exactly the remaining objects
// beginning with the first object of that block.
func VerifH_C09_resume() {
	procs := vRange("procs", 1, vParam("maxProcs", 2))
	procs2 := vRange("procs2", 1, vParam("maxProcs", 2))
	nb := vRange("blocks", 1, vParam("maxBlocks", 2))
	c := c09Build(nb, vParam("maxNodes", 2), true)
	if len(c.want) == 0 {
		return
	}
	stop := vRange("stopAfter", 1, len(c.want))
	sc := New(context.Background(), &vReader{data: c.f.data}, procs)
	for i := 0; i < stop; i++ {
		if !sc.Scan() {
			vAssert(false, "first-scan-ended-early")
			return
		}
	}
	off := sc.FullyScannedBytes()
	sc.Close()
	b := c.blockOf[stop-1]
	vAssert(off == c.blockOffset(b), "offset-of-block-of-last-object")
	vReach("stopped")
	// resume
	first := 0
	for first < len(c.want) && c.blockOf[first] != b {
		first++
	}
	sc2 := New(context.Background(), &vReader{data: c.f.data[off:]}, procs2)
	j := first
	firstBlockStart := c.blockOffset(b)
	for sc2.Scan() {
		if j >= len(c.want) {
			vAssert(false, "resume-too-many-objects")
			break
		}
		vAssert(vSame(sc2.Object(), c.want[j]), "resume-object-in-order")
		vAssert(sc2.FullyScannedBytes() == c.blockOffset(c.blockOf[j])-firstBlockStart, "resume-offsets-relative-to-restart")
		j++
	}
	vAssert(sc2.Err() == nil, "resume-no-error")
	vAssert(j == len(c.want), "resume-yields-all-remaining")
	h, _ := sc2.Header()
	vAssert(h == nil, "resume-has-no-header")
	sc2.Close()
	vReach("resumed")
}

// VerifH_C09_resumeSkip: blocks emptied by a skip flag: a file whose blocks hold either
// one node or one way, scanned with SkipWays. Stop after k delivered objects, resume at
// the reported offset (again with SkipWays): exactly the remaining nodes follow; the
// reported offset is the offset of the block of the last delivered object.
func VerifH_C09_resumeSkip() {
	procs := vRange("procs", 1, vParam("maxProcs", 2))
	procs2 := vRange("procs2", 1, vParam("maxProcs", 2))
	nb := vRange("blocks", 1, vParam("maxBlocks", 3))
	c := &c09File{f: &mFile{hasHeader: true, header: simpleHeader()}}
	for b := 0; b < nb; b++ {
		var m *mBlock
		if vRange("wayBlock", 0, 1) == 1 {
			m = &mBlock{width: 2, exact: true}
			m.genStrings(1)
			m.ways = append(m.ways, m.genWay(-1, -1, 1, 1))
		} else {
			m = simpleBlock(vParam("nodesPerBlock", 2))
			for _, o := range m.expected() {
				c.want = append(c.want, o)
				c.blockOf = append(c.blockOf, b)
			}
		}
		c.f.blocks = append(c.f.blocks, m)
	}
	c.f.build()
	if len(c.want) == 0 {
		return
	}
	stop := vRange("stopAfter", 1, len(c.want))
	sc := New(context.Background(), &vReader{data: c.f.data}, procs)
	sc.SkipWays = true
	for i := 0; i < stop; i++ {
		if !sc.Scan() {
			vAssert(false, "first-scan-ended-early")
			return
		}
		vAssert(vSame(sc.Object(), c.want[i]), "object-in-order")
		// a slow consumer: the rest of the pipeline runs ahead as far as it can
		vYield()
	}
	off := sc.FullyScannedBytes()
	sc.Close()
	b := c.blockOf[stop-1]
	vAssert(off == c.blockOffset(b), "offset-of-block-of-last-object")
	vReach("stopped")
	sc2 := New(context.Background(), &vReader{data: c.f.data[off:]}, procs2)
	sc2.SkipWays = true
	j := 0 // the block of the last delivered object is delivered again from its first object
	for c.blockOf[j] != b {
		j++
	}
	for sc2.Scan() {
		if j >= len(c.want) {
			vAssert(false, "resume-too-many-objects")
			break
		}
		vAssert(vSame(sc2.Object(), c.want[j]), "resume-object-in-order")
		j++
	}
	vAssert(sc2.Err() == nil, "resume-no-error")
	vAssert(j == len(c.want), "resume-yields-all-remaining")
	sc2.Close()
	vReach("resumed")
}
