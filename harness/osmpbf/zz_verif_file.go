//go:build verif

package osmpbf

// File-level writer (fileformat.proto framing) and a controllable reader for the
// pipeline harnesses (C02, C06, C07, C09).

import (
	"io"

	"github.com/paulmach/osm"
)

type mFile struct {
	hasHeader bool
	header    []byte // HeaderBlock bytes
	blocks    []*mBlock
	raw       [][]byte // encoded file blocks (including the 4-byte prefix), header first
	offsets   []int64  // offset of every file block
	data      []byte
}

func frame(typ string, payload []byte) []byte {
	var blob pbw
	blob.bytesField(1, payload) // raw
	var hdr pbw
	hdr.bytesField(1, []byte(typ))
	hdr.key(3, 0)
	hdr.uv(uint64(len(blob.b)))
	n := len(hdr.b)
	out := []byte{byte(n >> 24), byte(n >> 16), byte(n >> 8), byte(n)}
	out = append(out, hdr.b...)
	out = append(out, blob.b...)
	return out
}

func simpleHeader() []byte {
	var h pbw
	h.bytesField(4, []byte("OsmSchema-V0.6"))
	h.bytesField(4, []byte("DenseNodes"))
	return h.b
}

func (f *mFile) build() {
	off := int64(0)
	if f.hasHeader {
		b := frame("OSMHeader", f.header)
		f.raw = append(f.raw, b)
		f.offsets = append(f.offsets, off)
		off += int64(len(b))
	}
	for _, m := range f.blocks {
		b := frame("OSMData", m.encode())
		f.raw = append(f.raw, b)
		f.offsets = append(f.offsets, off)
		off += int64(len(b))
	}
	for _, b := range f.raw {
		f.data = append(f.data, b...)
	}
}

// simpleBlock: a data block with n dense nodes (symbolic ids and coordinates, no info).
func simpleBlock(n int) *mBlock {
	m := &mBlock{width: 2}
	m.genStrings(1)
	m.genDense(n, -1, 0, false)
	return m
}

// vReader serves data in chunks; it records how far it has been read.
type vReader struct {
	data  []byte
	pos   int
	chunk int // max bytes per Read (0 = everything asked for)
	reads int
	errAt int // if >0: return errInjected once pos reaches errAt
	err   error
}

func (r *vReader) Read(p []byte) (int, error) {
	r.reads++
	if r.errAt > 0 && r.pos >= r.errAt {
		return 0, r.err
	}
	if r.pos >= len(r.data) {
		return 0, io.EOF
	}
	n := len(p)
	if r.chunk > 0 && n > r.chunk {
		n = r.chunk
	}
	if n > len(r.data)-r.pos {
		n = len(r.data) - r.pos
	}
	if r.errAt > 0 && r.pos+n > r.errAt {
		n = r.errAt - r.pos
	}
	copy(p, r.data[r.pos:r.pos+n])
	r.pos += n
	return n, nil
}

func nodeIDs(objs []osm.Object) []int64 {
	var ids []int64
	for _, o := range objs {
		if n, ok := o.(*osm.Node); ok {
			ids = append(ids, int64(n.ID))
		}
	}
	return ids
}
