//go:build verif

package osmpbf

import (
	"context"

	"github.com/paulmach/osm"
)

// kinds: 1 nodes, 2 ways, 4 relations (bit set). The first element of each kind is
// "rich" (info, tags, children); the following ones vary in which optional parts they carry.
func c08Block(kinds, n int) *mBlock {
	m := &mBlock{width: vParam("width", 2)}
	m.genStrings(3)
	m.genParams(0)
	if kinds&1 != 0 {
		m.genDense(n, 0, 1, true)
	}
	if kinds&2 != 0 {
		m.exact = true
		m.ways = append(m.ways, m.genWay(0, 1, 2, 2))
		m.exact = false
		for i := 1; i < n; i++ {
			m.ways = append(m.ways, m.genWay(vRange("wayInfo", -1, 0), vRange("wayTags", -1, 1), 1, vRange("refsMode", 0, 2)))
		}
	}
	if kinds&4 != 0 {
		m.exact = true
		m.rels = append(m.rels, m.genRel(0, 1, 1, true))
		m.exact = false
		for i := 1; i < n; i++ {
			m.rels = append(m.rels, m.genRel(vRange("relInfo", -1, 0), vRange("relTags", -1, 1), 1, vRange("hasMembers", 0, 1) == 1))
		}
	}
	return m
}

func VerifH_C08_filterNodes()     { c08Run(c08Block(1, vParam("n", 3)), 0, true) }
func VerifH_C08_filterWays()      { c08Run(c08Block(2, vParam("n", 3)), 0, true) }
func VerifH_C08_filterRelations() { c08Run(c08Block(4, vParam("n", 3)), 0, true) }

// VerifH_C08_skip: the 8 skip-flag combinations on a block holding all three kinds,
// with and without accept-some filters.
func VerifH_C08_skip() {
	m := c08Block(7, 1)
	// a second, differently shaped element of each kind (fixed shapes)
	m.exact = true
	m.ways = append(m.ways, m.genWay(-1, -1, 1, 1))
	m.rels = append(m.rels, m.genRel(-1, 1, 1, false))
	m.nodes = append(m.nodes, mNode{id: m.symS("id"), lat: m.symS("lat"), lon: m.symS("lon"), info: m.symInfo()})
	m.mixed = vRange("waysAndRelationsInOneGroup", 0, 1) == 1
	c08Run(m, vRange("skip", 0, 7), vRange("filters", 0, 1) == 1)
}

func c08Run(m *mBlock, skip int, useFilter bool) {
	sc := &Scanner{SkipNodes: skip&1 != 0, SkipWays: skip&2 != 0, SkipRelations: skip&4 != 0}
	expNodes, expWays, expRels := m.expectedNodes(), m.expectedWays(), m.expectedRels()
	var want []osm.Object
	ni, wi, ri := 0, 0, 0
	sawOK := true
	var keepN, keepW, keepR []bool
	if useFilter {
		sc.FilterNode = func(n *osm.Node) bool {
			if ni < len(expNodes) {
				sawOK = vAnd(sawOK, vSame(n, expNodes[ni]))
			}
			ni++
			k := vBool("keepNode")
			keepN = append(keepN, k)
			return k
		}
		sc.FilterWay = func(w *osm.Way) bool {
			if wi < len(expWays) {
				sawOK = vAnd(sawOK, vSame(w, expWays[wi]))
			}
			wi++
			k := vBool("keepWay")
			keepW = append(keepW, k)
			return k
		}
		sc.FilterRelation = func(r *osm.Relation) bool {
			if ri < len(expRels) {
				sawOK = vAnd(sawOK, vSame(r, expRels[ri]))
			}
			ri++
			k := vBool("keepRel")
			keepR = append(keepR, k)
			return k
		}
	}
	dd := &dataDecoder{scanner: sc}
	objs, err := c01Decode(dd, m)
	vReach("decoded")
	vAssert(err == nil, "no-error")
	if !sc.SkipNodes {
		for i, n := range expNodes {
			if !useFilter || (i < len(keepN) && keepN[i]) {
				want = append(want, n)
			}
		}
		if useFilter {
			vAssert(len(keepN) == len(expNodes), "filter-offered-each-node-once")
		}
	} else {
		vAssert(len(keepN) == 0, "skipped-type-not-offered")
	}
	if !sc.SkipWays {
		for i, w := range expWays {
			if !useFilter || (i < len(keepW) && keepW[i]) {
				want = append(want, w)
			}
		}
		if useFilter {
			vAssert(len(keepW) == len(expWays), "filter-offered-each-way-once")
		}
	} else {
		vAssert(len(keepW) == 0, "skipped-type-not-offered")
	}
	if !sc.SkipRelations {
		for i, r := range expRels {
			if !useFilter || (i < len(keepR) && keepR[i]) {
				want = append(want, r)
			}
		}
		if useFilter {
			vAssert(len(keepR) == len(expRels), "filter-offered-each-relation-once")
		}
	} else {
		vAssert(len(keepR) == 0, "skipped-type-not-offered")
	}
	vAssert(sawOK, "filter-saw-fully-decoded-element")
	// compared at the end of the block: rejected elements' memory has been reused by now
	vAssert(vSame(objs, want), "exact-unmodified-subsequence")
}

// VerifH_C08_pipeline: filtering through the whole scanner (reader, decoders,
// serializer): a file of node blocks, FilterNode an arbitrary predicate (a fresh
// symbolic bool per offered node) or SkipNodes; blocks whose every element is
// rejected are still blocks: the kept nodes arrive in file order, none lost.
func VerifH_C08_pipeline() {
	procs := vRange("procs", 1, vParam("maxProcs", 2))
	nb := vRange("blocks", 1, vParam("maxBlocks", 3))
	c := c09Build(nb, vParam("maxNodes", 1), true)
	sc := New(context.Background(), &vReader{data: c.f.data}, procs)
	skip := vRange("skipNodes", 0, 1) == 1
	var want []osm.Object
	if skip {
		sc.SkipNodes = true
	} else {
		// decided before the scan so that every decoder goroutine sees the same predicate
		keep := map[osm.NodeID]bool{}
		for i, o := range c.want {
			for _, p := range c.want[:i] {
				vAssume(p.(*osm.Node).ID != o.(*osm.Node).ID) // the predicate is a function of the id
			}
			k := vBool("keep")
			keep[o.(*osm.Node).ID] = k
			if k {
				want = append(want, o)
			}
		}
		sc.FilterNode = func(n *osm.Node) bool { return keep[n.ID] }
	}
	var got []osm.Object
	for sc.Scan() {
		got = append(got, sc.Object())
		if len(got) > len(c.want) {
			break
		}
	}
	vReach("scanned")
	vAssert(sc.Err() == nil, "no-error")
	vAssert(vSame(got, want), "kept-elements-in-file-order")
	sc.Close()
}

// VerifH_C08_nextBlock: what a decoder keeps from a REJECTED element must not show up in
// the next block it decodes: block 1 is rich (info, tags, children) and filtered by an
// arbitrary predicate, block 2 on the same decoder holds one plain element of the same
// kind (no info, no tags, no members) that is accepted: it equals its own specification.
func VerifH_C08_nextBlock() {
	kinds := []int{1, 2, 4}[vRange("kind", 0, 2)]
	m1 := c08Block(kinds, vParam("n", 2))
	m2 := &mBlock{width: 2}
	m2.genStrings(1)
	m2.genParams(0)
	m2.exact = true
	switch kinds {
	case 1:
		m2.genDense(1, -1, 0, false)
	case 2:
		m2.ways = append(m2.ways, m2.genWay(-1, -1, 1, 1))
	case 4:
		m2.rels = append(m2.rels, m2.genRel(-1, -1, 1, false))
	}
	second := false
	sc := &Scanner{}
	sc.FilterNode = func(n *osm.Node) bool { return second || vBool("keepNode") }
	sc.FilterWay = func(w *osm.Way) bool { return second || vBool("keepWay") }
	sc.FilterRelation = func(r *osm.Relation) bool { return second || vBool("keepRel") }
	dd := &dataDecoder{scanner: sc}
	_, err := c01Decode(dd, m1)
	vAssert(err == nil, "no-error")
	second = true
	objs, err := c01Decode(dd, m2)
	vReach("decoded")
	vAssert(err == nil, "no-error")
	vAssert(vSame(objs, m2.expected()), "next-block-takes-nothing-from-rejected-elements")
}
