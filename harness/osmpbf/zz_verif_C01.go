//go:build verif

package osmpbf

import (
	"context"
	"time"

	"github.com/paulmach/osm"
	"github.com/paulmach/osm/osmpbf/internal/osmpbf"
)

func c01Decode(dd *dataDecoder, m *mBlock) ([]osm.Object, error) {
	return dd.Decode(&osmpbf.Blob{Raw: m.encode()})
}

// VerifH_C01_dense: one block with one dense group.
func VerifH_C01_dense() {
	m := &mBlock{width: vParam("width", 2)}
	m.genStrings(vParam("strings", 3))
	m.genParams(vRange("params", 0, 5))
	infoMode := vRange("infoMode", -1, 7)
	kv := vRange("kv", 0, 1) == 1
	m.genDense(vRange("nodes", 0, vParam("maxNodes", 2)), infoMode, vParam("maxTags", 1), kv)
	dd := &dataDecoder{scanner: &Scanner{}}
	objs, err := c01Decode(dd, m)
	vReach("decoded")
	vAssert(err == nil, "no-error")
	vAssert(vSame(objs, m.expected()), "equals-spec")
}

// VerifH_C01_twoDenseGroups: one block with two dense groups that differ in which optional
// parts they carry (dense info and its columns, keys_vals): each group's nodes take
// their own values and the format's defaults, nothing from the other group.
func VerifH_C01_twoDenseGroups() {
	m := &mBlock{width: vParam("width", 2)}
	m.genStrings(vParam("strings", 3))
	m.genParams(vRange("params", 0, 1))
	m.genDense(1, vRange("infoMode", -1, 7), 1, vRange("kv", 0, 1) == 1)
	s := m.secondDense()
	s.genDense(1, vRange("infoMode2", -1, 7), 1, vRange("kv2", 0, 1) == 1)
	dd := &dataDecoder{scanner: &Scanner{}}
	objs, err := c01Decode(dd, m)
	vReach("decoded")
	vAssert(err == nil, "no-error")
	vAssert(vSame(objs, m.expected()), "equals-spec")
}

// VerifH_C01_ways: one block with a group of ways.
func VerifH_C01_ways() {
	m := &mBlock{width: vParam("width", 2)}
	m.genStrings(vParam("strings", 3))
	m.genParams(vRange("params", 0, 5))
	nw := vRange("ways", 1, vParam("maxWays", 2))
	for i := 0; i < nw; i++ {
		tagsMax := vParam("maxTags", 1)
		if vRange("hasTags", 0, 1) == 0 {
			tagsMax = -1
		}
		m.ways = append(m.ways, m.genWay(vRange("infoMode", -1, 7), tagsMax, vParam("maxRefs", 2), vRange("refsMode", 0, 3)))
	}
	dd := &dataDecoder{scanner: &Scanner{}}
	objs, err := c01Decode(dd, m)
	vReach("decoded")
	vAssert(err == nil, "no-error")
	vAssert(vSame(objs, m.expected()), "equals-spec")
}

// VerifH_C01_relations: one block with a group of relations.
func VerifH_C01_relations() {
	m := &mBlock{width: vParam("width", 2)}
	m.genStrings(vParam("strings", 3))
	m.genParams(vRange("params", 0, 1))
	nr := vRange("relations", 1, vParam("maxRels", 2))
	for i := 0; i < nr; i++ {
		tagsMax := vParam("maxTags", 1)
		if vRange("hasTags", 0, 1) == 0 {
			tagsMax = -1
		}
		m.rels = append(m.rels, m.genRel(vRange("infoMode", -1, 7), tagsMax, vParam("maxMembers", 2), vRange("hasMembers", 0, 1) == 1))
	}
	dd := &dataDecoder{scanner: &Scanner{}}
	objs, err := c01Decode(dd, m)
	vReach("decoded")
	vAssert(err == nil, "no-error")
	vAssert(vSame(objs, m.expected()), "equals-spec")
}

// c01AnyBlock generates a block of a case-split shape: dense nodes, ways and relations mixed.
func c01AnyBlock(tag string, rich bool) *mBlock {
	m := &mBlock{width: vParam("width", 2)}
	m.genStrings(vParam("strings", 3))
	if rich {
		m.exact = true
		m.genParams(1)
		m.genDense(1, 0, 1, true)
		m.ways = append(m.ways, m.genWay(0, 1, 2, 2))
		m.rels = append(m.rels, m.genRel(0, 1, 1, true))
		return m
	}
	m.genParams(vRange("params", 0, 1))
	tagsMax := func() int {
		if vRange("hasTags", 0, 1) == 0 {
			return -1
		}
		return 1
	}
	switch vRange("kind", 0, 2) {
	case 0:
		m.genDense(1, vRange("infoMode", -1, 7), 1, vRange("kv", 0, 1) == 1)
	case 1:
		m.ways = append(m.ways, m.genWay(vRange("infoMode", -1, 7), tagsMax(), 1, vRange("refsMode", 0, 3)))
	case 2:
		m.rels = append(m.rels, m.genRel(vRange("infoMode", -1, 7), tagsMax(), 1, vRange("hasMembers", 0, 1) == 1))
	}
	return m
}

// VerifH_C01_noInherit: the same worker decodes a "rich" block (every optional
// part present) and then an arbitrary block; the second result must equal the
// second block's own specification (nothing inherited from cached decoder state).
func VerifH_C01_noInherit() {
	a := c01AnyBlock("a", true)
	b := c01AnyBlock("b", false)
	dd := &dataDecoder{scanner: &Scanner{}}
	o1, e1 := c01Decode(dd, a)
	vAssert(e1 == nil, "first-no-error")
	exp1 := a.expected()
	vAssert(vSame(o1, exp1), "first-equals-spec")
	o2, e2 := c01Decode(dd, b)
	vReach("second-decoded")
	vAssert(e2 == nil, "second-no-error")
	vAssert(vSame(o2, b.expected()), "second-equals-spec-nothing-inherited")
	// objects handed out for the first block are not touched by decoding the second
	vAssert(vSame(o1, exp1), "first-block-objects-unchanged")
}

// VerifH_C01_header: Header() reports the header block's bounding box (nanodegrees),
// required / optional features, writing program, source and the three replication
// fields unchanged, each present or absent.
func VerifH_C01_header() {
	var h pbw
	mask := vRange("present", 0, 15) // bit0 bbox, bit1 program+source, bit2 replication fields, bit3 optional features
	wd := 5
	var left, right, top, bottom int64
	if mask&1 != 0 {
		sym := func(name string) int64 {
			v := vInt64(name)
			vAssume(fits(zig(v), wd))
			return v
		}
		left, right, top, bottom = sym("left"), sym("right"), sym("top"), sym("bottom")
		var b pbw
		b.varintField(1, zig(left), wd)
		b.varintField(2, zig(right), wd)
		b.varintField(3, zig(top), wd)
		b.varintField(4, zig(bottom), wd)
		h.bytesField(1, b.b)
	}
	h.bytesField(4, []byte("OsmSchema-V0.6"))
	h.bytesField(4, []byte("DenseNodes"))
	opt := vStr("optional", 2)
	if mask&8 != 0 {
		h.bytesField(5, []byte(opt))
		h.bytesField(5, []byte("Sort.Type_then_ID"))
	}
	prog, src := vStr("program", 2), vStr("source", 1)
	if mask&2 != 0 {
		h.bytesField(16, []byte(prog))
		h.bytesField(17, []byte(src))
	}
	var ts, seq int64
	url := vStr("url", 2)
	if mask&4 != 0 {
		ts, seq = vInt64("repTimestamp"), vInt64("repSeq")
		vAssume(vAnd(vAnd(ts >= 0, fits(uint64(ts), wd)), vAnd(seq >= 0, fits(uint64(seq), wd))))
		h.varintField(32, uint64(ts), wd)
		h.varintField(33, uint64(seq), wd)
		h.bytesField(34, []byte(url))
	}
	good := simpleBlock(1)
	var data []byte
	data = append(data, frame("OSMHeader", h.b)...)
	data = append(data, frame("OSMData", good.encode())...)
	sc := New(context.Background(), &vReader{data: data}, 1)
	got, err := sc.Header()
	vReach("header-read")
	vAssert(err == nil && got != nil, "header-no-error")
	if err != nil || got == nil {
		return
	}
	vAssert(vSame(got.RequiredFeatures, []string{"OsmSchema-V0.6", "DenseNodes"}), "required-features")
	if mask&8 != 0 {
		vAssert(vSame(got.OptionalFeatures, []string{opt, "Sort.Type_then_ID"}), "optional-features")
	} else {
		vAssert(len(got.OptionalFeatures) == 0, "optional-features-absent")
	}
	if mask&1 != 0 {
		vAssert(got.Bounds != nil, "bounds-present")
		if got.Bounds != nil {
			want := &osm.Bounds{MinLon: 1e-9 * float64(left), MaxLon: 1e-9 * float64(right), MinLat: 1e-9 * float64(bottom), MaxLat: 1e-9 * float64(top)}
			vAssert(vSame(got.Bounds, want), "bounds-in-nanodegrees")
		}
	} else {
		vAssert(got.Bounds == nil, "bounds-absent")
	}
	if mask&2 != 0 {
		vAssert(got.WritingProgram == prog && got.Source == src, "program-and-source")
	} else {
		vAssert(got.WritingProgram == "" && got.Source == "", "program-and-source-absent")
	}
	if mask&4 != 0 {
		vAssert(got.ReplicationSeqNum == uint64(seq) && got.ReplicationBaseURL == url, "replication-sequence-and-url")
		vAssert(got.ReplicationTimestamp.Equal(time.Unix(ts, 0)), "replication-timestamp")
	} else {
		vAssert(got.ReplicationSeqNum == 0 && got.ReplicationBaseURL == "" && got.ReplicationTimestamp.IsZero(), "replication-fields-absent")
	}
	// the scan itself still works after Header()
	vAssert(sc.Scan(), "scan-after-header")
	sc.Close()
}

// VerifH_C01_pairs: within ONE block, an element with every optional part is followed
// by an arbitrary element of the same kind: the second one takes its own values and
// format defaults, nothing from its predecessor.
func VerifH_C01_pairs() {
	m := &mBlock{width: vParam("width", 2)}
	m.genStrings(vParam("strings", 3))
	m.genParams(vRange("params", 0, 1))
	tagsMax := func() int {
		if vRange("hasTags", 0, 1) == 0 {
			return -1
		}
		return 1
	}
	if vRange("kind", 0, 1) == 0 {
		m.exact = true
		m.ways = append(m.ways, m.genWay(0, 1, 2, 2))
		m.exact = false
		m.ways = append(m.ways, m.genWay(vRange("infoMode", -1, 7), tagsMax(), 1, vRange("refsMode", 0, 3)))
	} else {
		m.exact = true
		m.rels = append(m.rels, m.genRel(0, 1, 1, true))
		m.exact = false
		m.rels = append(m.rels, m.genRel(vRange("infoMode", -1, 7), tagsMax(), 1, vRange("hasMembers", 0, 1) == 1))
	}
	dd := &dataDecoder{scanner: &Scanner{}}
	objs, err := c01Decode(dd, m)
	vReach("decoded")
	vAssert(err == nil, "no-error")
	vAssert(vSame(objs, m.expected()), "equals-spec")
}
