//go:build verif

package osmpbf

import (
	"github.com/paulmach/osm"
	"github.com/paulmach/osm/osmpbf/internal/osmpbf"
)

func c01Decode(dd *dataDecoder, m *mBlock) ([]osm.Object, error) {
	return dd.Decode(&osmpbf.Blob{Raw: m.encode()})
}

// VerifH_C01_dense: one block with one dense group.
func VerifH_C01_dense() {
	m := &mBlock{width: vParam("width", 2)}
	m.genStrings(vParam("strings", 3))
	m.genParams(vRange("params", 0, 5))
	infoMode := vRange("infoMode", -1, 7)
	kv := vRange("kv", 0, 1) == 1
	m.genDense(vRange("nodes", 0, vParam("maxNodes", 2)), infoMode, vParam("maxTags", 1), kv)
	dd := &dataDecoder{scanner: &Scanner{}}
	objs, err := c01Decode(dd, m)
	vReach("decoded")
	vAssert(err == nil, "no-error")
	vAssert(vSame(objs, m.expected()), "equals-spec")
}

// VerifH_C01_ways: one block with a group of ways.
func VerifH_C01_ways() {
	m := &mBlock{width: vParam("width", 2)}
	m.genStrings(vParam("strings", 3))
	m.genParams(vRange("params", 0, 5))
	nw := vRange("ways", 1, vParam("maxWays", 2))
	for i := 0; i < nw; i++ {
		tagsMax := vParam("maxTags", 1)
		if vRange("hasTags", 0, 1) == 0 {
			tagsMax = -1
		}
		m.ways = append(m.ways, m.genWay(vRange("infoMode", -1, 7), tagsMax, vParam("maxRefs", 2), vRange("refsMode", 0, 3)))
	}
	dd := &dataDecoder{scanner: &Scanner{}}
	objs, err := c01Decode(dd, m)
	vReach("decoded")
	vAssert(err == nil, "no-error")
	vAssert(vSame(objs, m.expected()), "equals-spec")
}

// VerifH_C01_relations: one block with a group of relations.
func VerifH_C01_relations() {
	m := &mBlock{width: vParam("width", 2)}
	m.genStrings(vParam("strings", 3))
	m.genParams(vRange("params", 0, 1))
	nr := vRange("relations", 1, vParam("maxRels", 2))
	for i := 0; i < nr; i++ {
		tagsMax := vParam("maxTags", 1)
		if vRange("hasTags", 0, 1) == 0 {
			tagsMax = -1
		}
		m.rels = append(m.rels, m.genRel(vRange("infoMode", -1, 7), tagsMax, vParam("maxMembers", 2), vRange("hasMembers", 0, 1) == 1))
	}
	dd := &dataDecoder{scanner: &Scanner{}}
	objs, err := c01Decode(dd, m)
	vReach("decoded")
	vAssert(err == nil, "no-error")
	vAssert(vSame(objs, m.expected()), "equals-spec")
}

// c01AnyBlock generates a block of a case-split shape: dense nodes, ways and relations mixed.
func c01AnyBlock(tag string, rich bool) *mBlock {
	m := &mBlock{width: vParam("width", 2)}
	m.genStrings(vParam("strings", 3))
	if rich {
		m.exact = true
		m.genParams(1)
		m.genDense(1, 0, 1, true)
		m.ways = append(m.ways, m.genWay(0, 1, 2, 2))
		m.rels = append(m.rels, m.genRel(0, 1, 1, true))
		return m
	}
	m.genParams(vRange("params", 0, 1))
	tagsMax := func() int {
		if vRange("hasTags", 0, 1) == 0 {
			return -1
		}
		return 1
	}
	switch vRange("kind", 0, 2) {
	case 0:
		m.genDense(1, vRange("infoMode", -1, 7), 1, vRange("kv", 0, 1) == 1)
	case 1:
		m.ways = append(m.ways, m.genWay(vRange("infoMode", -1, 7), tagsMax(), 1, vRange("refsMode", 0, 3)))
	case 2:
		m.rels = append(m.rels, m.genRel(vRange("infoMode", -1, 7), tagsMax(), 1, vRange("hasMembers", 0, 1) == 1))
	}
	return m
}

// VerifH_C01_noInherit: the same worker decodes a "rich" block (every optional
// part present) and then an arbitrary block; the second result must equal the
// second block's own specification (nothing inherited from cached decoder state).
func VerifH_C01_noInherit() {
	a := c01AnyBlock("a", true)
	b := c01AnyBlock("b", false)
	dd := &dataDecoder{scanner: &Scanner{}}
	o1, e1 := c01Decode(dd, a)
	vAssert(e1 == nil, "first-no-error")
	exp1 := a.expected()
	vAssert(vSame(o1, exp1), "first-equals-spec")
	o2, e2 := c01Decode(dd, b)
	vReach("second-decoded")
	vAssert(e2 == nil, "second-no-error")
	vAssert(vSame(o2, b.expected()), "second-equals-spec-nothing-inherited")
	// objects handed out for the first block are not touched by decoding the second
	vAssert(vSame(o1, exp1), "first-block-objects-unchanged")
}
