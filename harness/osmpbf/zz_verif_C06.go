//go:build verif

package osmpbf

import (
	"context"

	"github.com/paulmach/osm"
	"github.com/paulmach/osm/osmpbf/internal/osmpbf"
)

// prefixOf: got is a prefix of want (element-wise structural equality).
func prefixOf(got, want []osm.Object) bool {
	if len(got) > len(want) {
		return false
	}
	ok := true
	for i := range got {
		ok = vAnd(ok, vSame(got[i], want[i]))
	}
	return ok
}

// VerifH_C06_cut: the stream is cut at any byte offset: exactly the objects of the
// complete blocks before the cut, success only when the cut is on a block boundary.
func VerifH_C06_cut() {
	procs := vRange("procs", 1, vParam("maxProcs", 2))
	c := c09Build(vParam("blocks", 2), 1, true)
	cut := vRange("cut", 0, len(c.f.data))
	sc := New(context.Background(), &vReader{data: c.f.data[:cut]}, procs)
	var got []osm.Object
	for sc.Scan() {
		got = append(got, sc.Object())
		if len(got) > len(c.want) {
			break
		}
	}
	err := sc.Err()
	sc.Close()
	vReach("scanned")
	// complete blocks before the cut
	complete := 0 // number of complete file blocks (header included)
	for i := range c.f.raw {
		if int(c.f.offsets[i])+len(c.f.raw[i]) <= cut {
			complete++
		}
	}
	boundary := cut == 0 // the start of the stream is a block boundary too
	for i := range c.f.raw {
		if int(c.f.offsets[i])+len(c.f.raw[i]) == cut {
			boundary = true
		}
	}
	var want []osm.Object
	for i, o := range c.want {
		if c.blockOf[i]+1 < complete {
			want = append(want, o)
		}
	}
	vAssert(vSame(got, want), "exactly-the-objects-of-complete-blocks")
	if boundary {
		vAssert(err == nil, "success-on-block-boundary")
	} else {
		vAssert(err != nil, "error-when-cut-inside-a-block")
	}
}

// c06One scans a file and returns objects and error.
func c06Scan(data []byte, procs, max int) ([]osm.Object, error) {
	sc := New(context.Background(), &vReader{data: data}, procs)
	var got []osm.Object
	for sc.Scan() {
		got = append(got, sc.Object())
		if len(got) > max {
			break
		}
	}
	err := sc.Err()
	sc.Close()
	return got, err
}

// frameWith builds a file block with explicit (possibly wrong) size fields.
func frameWith(typ string, blob []byte, hdrSize []byte, datasize uint64, dsWidth int) []byte {
	var hdr pbw
	hdr.bytesField(1, []byte(typ))
	hdr.key(3, 0)
	hdr.raw(datasize, dsWidth)
	out := append([]byte{}, hdrSize...)
	if hdrSize == nil {
		n := len(hdr.b)
		out = []byte{byte(n >> 24), byte(n >> 16), byte(n >> 8), byte(n)}
	}
	out = append(out, hdr.b...)
	out = append(out, blob...)
	return out
}

func rawBlob(payload []byte) []byte {
	var b pbw
	b.bytesField(1, payload)
	return b.b
}

// VerifH_C06_damage: one intact block, then a block damaged in a way the format lets
// a reader detect: the scan yields the first block's objects and then ends with an
// error (never a panic, a hang, an invented object or silent success).
func VerifH_C06_damage() {
	procs := vRange("procs", 1, vParam("maxProcs", 2))
	good := simpleBlock(1)
	bad := simpleBlock(1)
	goodFrame := frame("OSMData", good.encode())
	badPayload := bad.encode()
	var badFrame []byte
	kind := vRange("damage", 0, 11)
	switch kind {
	case 0: // header size >= 64K (symbolic)
		sz := vU32("hdrsize")
		vAssume(sz >= 64*1024)
		badFrame = frameWith("OSMData", rawBlob(badPayload), []byte{byte(sz >> 24), byte(sz >> 16), byte(sz >> 8), byte(sz)}, uint64(len(rawBlob(badPayload))), 1)
	case 1: // datasize >= 32M (symbolic, 5-byte varint)
		ds := vU64("datasize")
		vAssume(vAnd(ds >= 32*1024*1024, ds < 1<<31))
		badFrame = frameWith("OSMData", rawBlob(badPayload), nil, ds, 5)
	case 2: // negative datasize (int32 < 0 travels as a 10-byte varint)
		ds := vI32("negsize")
		vAssume(ds < 0)
		badFrame = frameWith("OSMData", rawBlob(badPayload), nil, uint64(int64(ds)), 10)
	case 3: // unknown blob encoding: only lzma_data present
		var b pbw
		b.bytesField(4, badPayload)
		badFrame = frameWith("OSMData", b.b, nil, uint64(len(b.b)), 1)
	case 4: // unexpected block type
		badFrame = frame("OSMHeaderX", badPayload)
	case 5: // zlib with wrong raw_size
		z := vZlib(badPayload)
		var b pbw
		b.varintField(2, uint64(len(badPayload)+1+vRange("sizeoff", 0, 1)), 1)
		b.bytesField(3, z)
		badFrame = frameWith("OSMData", b.b, nil, uint64(len(b.b)), 1)
	case 10: // zlib with a raw_size smaller than the data (every shorter length)
		z := vZlib(badPayload)
		var b pbw
		b.varintField(2, uint64(vRange("shortsize", 0, len(badPayload)-1)), 1)
		b.bytesField(3, z)
		badFrame = frameWith("OSMData", b.b, nil, uint64(len(b.b)), 1)
	case 11: // zlib stream that inflates to nothing although raw_size announces data
		z := vZlib(nil)
		var b pbw
		b.varintField(2, uint64(len(badPayload)), 1)
		b.bytesField(3, z)
		badFrame = frameWith("OSMData", b.b, nil, uint64(len(b.b)), 1)
	case 6: // corrupt compressed data
		z := vZlibCorrupt(badPayload)
		var b pbw
		b.varintField(2, uint64(len(badPayload)), 1)
		b.bytesField(3, z)
		badFrame = frameWith("OSMData", b.b, nil, uint64(len(b.b)), 1)
	case 7: // blob header without the required datasize
		var hdr pbw
		hdr.bytesField(1, []byte("OSMData"))
		n := len(hdr.b)
		badFrame = append([]byte{byte(n >> 24), byte(n >> 16), byte(n >> 8), byte(n)}, hdr.b...)
		badFrame = append(badFrame, rawBlob(badPayload)...)
	case 8: // second OSMHeader in the middle of the data
		badFrame = frame("OSMHeader", simpleHeader())
	case 9: // intact zlib block (control: must succeed)
		z := vZlib(badPayload)
		var b pbw
		b.varintField(2, uint64(len(badPayload)), 1)
		b.bytesField(3, z)
		badFrame = frameWith("OSMData", b.b, nil, uint64(len(b.b)), 1)
	}
	// the damaged block is the first data block, the second one, or sits between two intact ones
	pos := vRange("damagedPosition", 0, vParam("maxPosition", 2))
	var data []byte
	data = append(data, frame("OSMHeader", simpleHeader())...)
	var before, after []osm.Object
	if pos >= 1 {
		data = append(data, goodFrame...)
		before = good.expected()
	}
	data = append(data, badFrame...)
	if pos != 1 {
		later := simpleBlock(1)
		data = append(data, frame("OSMData", later.encode())...)
		after = later.expected()
	}
	got, err := c06Scan(data, procs, 4)
	vReach("scanned")
	if kind == 9 {
		vAssert(err == nil, "intact-zlib-block-succeeds")
		vAssert(vSame(got, append(append(before, bad.expected()...), after...)), "intact-zlib-block-objects")
		return
	}
	vAssert(err != nil, "damage-ends-in-error")
	vAssert(vSame(got, before), "objects-of-intact-blocks-only")
}

// VerifH_C06_header: unsupported required feature => error; supported => scan works.
func VerifH_C06_header() {
	var h pbw
	feat := vRange("feature", 0, 3)
	names := []string{"OsmSchema-V0.6", "DenseNodes", "HistoricalInformation", "Sort.Type_then_ID"}
	h.bytesField(4, []byte("OsmSchema-V0.6"))
	h.bytesField(4, []byte(names[feat]))
	good := simpleBlock(1)
	var data []byte
	data = append(data, frame("OSMHeader", h.b)...)
	data = append(data, frame("OSMData", good.encode())...)
	got, err := c06Scan(data, 1, 2)
	vReach("scanned")
	if feat == 3 {
		vAssert(err != nil, "unsupported-required-feature-is-an-error")
		vAssert(len(got) == 0, "no-objects-after-unsupported-feature")
	} else {
		vAssert(err == nil, "supported-features-accepted")
		vAssert(vSame(got, good.expected()), "objects-delivered")
	}
}

// VerifH_C06_body: damage inside the primitive block, decoded directly by a worker's
// decoder: an error is required, a panic (which would kill the process from a
// worker goroutine) or an invented object is a violation.
func VerifH_C06_body() {
	m := &mBlock{width: 2}
	m.exact = true
	m.genStrings(2)
	kind := vRange("body", 0, 13)
	bad := func(name string) uint32 { // a string index outside the table
		v := vU32(name)
		vAssume(vAnd(v >= uint32(len(m.st)), v < 128))
		return v
	}
	var data []byte
	switch kind {
	case 0: // dense user_sid out of range
		m.genDense(1, 0, 0, false)
		m.nodes[0].info.usid = bad("usid")
		data = m.encode()
	case 1: // dense tag key out of range
		m.genDense(1, -1, 1, true)
		m.nodes[0].tags[0][0] = bad("key")
		data = m.encode()
	case 2: // dense tag value out of range
		m.genDense(1, -1, 1, true)
		m.nodes[0].tags[0][1] = bad("val")
		data = m.encode()
	case 3: // way tag key out of range
		m.ways = append(m.ways, m.genWay(-1, 1, 1, 1))
		m.ways[0].tags[0][0] = bad("key")
		data = m.encode()
	case 4: // way user_sid out of range
		m.ways = append(m.ways, m.genWay(0, -1, 1, 1))
		m.ways[0].info.usid = bad("usid")
		data = m.encode()
	case 5: // relation role out of range
		m.rels = append(m.rels, m.genRel(-1, -1, 1, true))
		m.rels[0].members[0].role = bad("role")
		data = m.encode()
	case 6: // relation user_sid out of range
		m.rels = append(m.rels, m.genRel(0, -1, 1, true))
		m.rels[0].info.usid = bad("usid")
		data = m.encode()
	case 7, 8, 9: // a mandatory dense column is missing
		m.genDense(1, -1, 0, false)
		data = m.encodeMissingDense(kind - 7)
	case 10: // plain (non-dense) Node group
		var n pbw
		n.varintField(1, zig(5), 1)
		n.varintField(8, zig(1), 1)
		n.varintField(9, zig(2), 1)
		var g pbw
		g.bytesField(1, n.b)
		var w pbw
		w.bytesField(1, nil)
		w.bytesField(2, g.b)
		data = w.b
	case 11: // way with more lat/lon values than refs
		m.ways = append(m.ways, m.genWay(-1, -1, 1, 2))
		m.ways[0].lats = append(m.ways[0].lats, 1, 2)
		m.ways[0].lons = append(m.ways[0].lons, 1, 2)
		data = m.encode()
	case 12: // relation with more roles than types
		m.rels = append(m.rels, m.genRel(-1, -1, 1, true))
		data = m.encodeRelExtraRole()
	case 13: // dense lat column shorter than ids
		m.genDense(2, -1, 0, false)
		data = m.encodeShortLat()
	}
	dd := &dataDecoder{scanner: &Scanner{}}
	objs, err := dd.Decode(&osmpbf.Blob{Raw: data})
	vReach("decoded")
	vAssert(err != nil, "body-damage-ends-in-error")
	_ = objs
}

// VerifH_C06_truncatedBody: the block bytes are cut at every offset: no panic, no
// hang, and whatever is returned is a prefix of the block's objects.
func VerifH_C06_truncatedBody() {
	m := &mBlock{width: 2}
	m.exact = true
	m.genStrings(2)
	m.genDense(1, 0, 1, true)
	m.ways = append(m.ways, m.genWay(0, 1, 1, 2))
	m.rels = append(m.rels, m.genRel(0, 1, 1, true))
	data := m.encode()
	cut := vRange("cut", 0, len(data)-1)
	dd := &dataDecoder{scanner: &Scanner{}}
	objs, err := dd.Decode(&osmpbf.Blob{Raw: data[:cut]})
	vReach("decoded")
	if err == nil {
		vAssert(prefixOf(objs, m.expected()), "nothing-invented")
	}
}

// VerifH_C06_staleStringTable: a worker that has decoded a good block is given a block
// WITHOUT a string table whose elements reference strings: the references are out
// of range (error), they must not resolve against the previous block's table.
func VerifH_C06_staleStringTable() {
	good := &mBlock{width: 2, exact: true}
	good.genStrings(3)
	good.genDense(1, 0, 1, true)
	bad := &mBlock{width: 2, exact: true}
	bad.genStrings(3) // indexes are drawn against 3 strings, but the table is not written
	kind := vRange("kind", 0, 2)
	switch kind {
	case 0:
		bad.genDense(1, 0, 1, true)
	case 1:
		bad.ways = append(bad.ways, bad.genWay(0, 1, 1, 1))
	case 2:
		bad.rels = append(bad.rels, bad.genRel(0, 1, 1, true))
	}
	full := bad.encode()
	// strip the leading string table field (field 1 is written first by the writer)
	var st pbw
	for _, s := range bad.st {
		st.bytesField(1, []byte(s))
	}
	var hdr pbw
	hdr.bytesField(1, st.b)
	stripped := full[len(hdr.b):]
	dd := &dataDecoder{scanner: &Scanner{}}
	_, err := dd.Decode(&osmpbf.Blob{Raw: good.encode()})
	vAssert(err == nil, "good-block-decodes")
	objs, err := dd.Decode(&osmpbf.Blob{Raw: stripped})
	vReach("decoded")
	vAssert(err != nil, "references-into-a-missing-string-table-are-an-error")
	_ = objs
}
