//go:build verif

package osmpbf

import (
	"context"

	"github.com/paulmach/osm"
)

// VerifH_C02_order: for every explored schedule of reader, decoders, serializer and
// consumer the delivered sequence equals file order (nothing lost, duplicated,
// swapped); retained objects are re-read at the end (race monitor on).
func VerifH_C02_order() {
	procs := vRange("procs", 1, vParam("maxProcs", 2))
	nb := vRange("blocks", 1, vParam("maxBlocks", 2))
	header := true
	if vParam("alsoHeaderless", 0) == 1 {
		// a stream resumed at a data block (no OSMHeader): same order guarantee
		header = vRange("header", 0, 1) == 1
	}
	c := c09Build(nb, vParam("maxNodes", 1), header)
	sc := New(context.Background(), &vReader{data: c.f.data, chunk: vParam("chunk", 0)}, procs)
	if vParam("filters", 0) == 1 {
		// a user filter running inside the decoder goroutines
		sc.FilterNode = func(n *osm.Node) bool { return true }
	}
	var got []osm.Object
	for sc.Scan() {
		got = append(got, sc.Object())
		if len(got) > len(c.want) {
			break
		}
	}
	vReach("scanned")
	vAssert(sc.Err() == nil, "no-error")
	vAssert(len(got) == len(c.want), "nothing-lost-or-duplicated")
	// the caller still holds every object: compare after the whole scan
	vAssert(vSame(got, c.want), "file-order-and-content")
	sc.Close()
	vQuiesce()
	vAssert(vGoroutines() == 0, "goroutines-terminated")
}

// VerifH_C02_manyProcs: more decoders than blocks and than the 10-slot channel
// budget (capacity 10/n = 0 => unbuffered worker queues). Canonical schedule.
func VerifH_C02_manyProcs() {
	procs := 11 + 21*vRange("procs32", 0, 1)
	nb := vRange("blocks", 1, vParam("maxBlocks", 3))
	c := c09Build(nb, 1, true)
	sc := New(context.Background(), &vReader{data: c.f.data}, procs)
	var got []osm.Object
	for sc.Scan() {
		got = append(got, sc.Object())
		if len(got) > len(c.want) {
			break
		}
	}
	vReach("scanned")
	vAssert(sc.Err() == nil, "no-error")
	vAssert(vSame(got, c.want), "file-order-and-content")
	sc.Close()
	vQuiesce()
	vAssert(vGoroutines() == 0, "goroutines-terminated")
}

// VerifH_C02_manyBlocks: long files with few decoders: the consumer lags a full
// pipeline behind the reader and keeps every object; all are compared at the end.
func VerifH_C02_manyBlocks() {
	procs := vRange("procs", 1, 2)
	c := &c09File{f: &mFile{hasHeader: true, header: simpleHeader()}}
	for b := 0; b < vParam("blocks", 30); b++ {
		m := simpleBlock(2)
		c.f.blocks = append(c.f.blocks, m)
		c.want = append(c.want, m.expected()...)
	}
	c.f.build()
	sc := New(context.Background(), &vReader{data: c.f.data}, procs)
	var got []osm.Object
	for sc.Scan() {
		got = append(got, sc.Object())
		if len(got) > len(c.want) {
			break
		}
		// a slow consumer: between two objects of a block the rest of the pipeline
		// runs as far as it can
		vYield()
	}
	vReach("scanned")
	vAssert(sc.Err() == nil, "no-error")
	vAssert(len(got) == len(c.want), "nothing-lost-or-duplicated")
	for k := range got {
		if k < len(c.want) {
			vAssert(vSame(got[k], c.want[k]), "file-order-and-content")
		}
	}
	sc.Close()
}

// VerifH_C02_foreignBlock: a file block of a type that is neither OSMHeader nor
// OSMData sits between data blocks. Whether the scan stops there with an error or
// goes on, what was delivered is a gap-free prefix of the file order (the whole file
// if no error is reported), whatever the decoder count.
func VerifH_C02_foreignBlock() {
	procs := vRange("procs", 1, vParam("maxProcs", 3))
	nb := vParam("blocks", 4)
	at := vRange("foreignBefore", 0, nb-1)
	var data []byte
	data = append(data, frame("OSMHeader", simpleHeader())...)
	var want []osm.Object
	for b := 0; b < nb; b++ {
		if b == at {
			data = append(data, frame("OSMIndex", []byte{1, 2, 3})...)
		}
		m := simpleBlock(1)
		data = append(data, frame("OSMData", m.encode())...)
		want = append(want, m.expected()...)
	}
	sc := New(context.Background(), &vReader{data: data}, procs)
	var got []osm.Object
	for sc.Scan() {
		got = append(got, sc.Object())
		if len(got) > len(want) {
			break
		}
	}
	vReach("scanned")
	vAssert(len(got) <= len(want), "nothing-duplicated")
	for k := range got {
		if k < len(want) {
			vAssert(vSame(got[k], want[k]), "delivered-objects-are-a-prefix-of-file-order")
		}
	}
	if sc.Err() == nil {
		vAssert(len(got) == len(want), "no-error-means-nothing-lost")
	}
	sc.Close()
}
