//go:build verif

package osmpbf

// Independent PBF (osmformat.proto) writer and block model shared by the
// C01/C06/C08/C09 harnesses. Structure (how many elements, which optional parts,
// varint widths) is concrete per path; every payload is a solver variable.

import (
	"time"

	"github.com/paulmach/osm"
)

type pbw struct{ b []byte }

// raw writes v as a base-128 varint of exactly width bytes (v must fit).
func (w *pbw) raw(v uint64, width int) {
	for i := 0; i < width-1; i++ {
		w.b = append(w.b, byte(v>>(7*uint(i)))&0x7f|0x80)
	}
	w.b = append(w.b, byte(v>>(7*uint(width-1)))&0x7f)
}

// fits: v is representable in width varint bytes.
func fits(v uint64, width int) bool {
	if width >= 10 {
		return true
	}
	return v>>(7*uint(width)) == 0
}

// uv writes a concrete value minimally (keys and lengths).
func (w *pbw) uv(v uint64) {
	for v >= 0x80 {
		w.b = append(w.b, byte(v)|0x80)
		v >>= 7
	}
	w.b = append(w.b, byte(v))
}

func (w *pbw) key(field, wt int)                 { w.uv(uint64(field)<<3 | uint64(wt)) }
func (w *pbw) varintField(f int, v uint64, wd int) { w.key(f, 0); w.raw(v, wd) }
func (w *pbw) bytesField(f int, p []byte) {
	w.key(f, 2)
	w.uv(uint64(len(p)))
	w.b = append(w.b, p...)
}
func (w *pbw) packed(f int, vals []uint64, wd int) {
	var p pbw
	for _, v := range vals {
		p.raw(v, wd)
	}
	w.bytesField(f, p.b)
}

func zig(v int64) uint64 { return uint64(v<<1) ^ uint64(v>>63) }

// ---- model

type mInfo struct {
	version        int32
	ts, cs         int64
	uid            int32
	usid           uint32
	visible        bool
}

type mNode struct {
	id, lat, lon int64
	info         mInfo
	tags         [][2]uint32
}

type mWay struct {
	id       int64
	hasInfo  bool
	infoMask int // bit i set => info field i+1 present
	info     mInfo
	hasTags  bool
	tags     [][2]uint32
	hasRefs  bool
	refs     []int64
	hasLL    bool
	lats     []int64
	lons     []int64
}

type mMember struct {
	role uint32
	id   int64
	typ  int32
}

type mRel struct {
	id       int64
	hasInfo  bool
	infoMask int
	info     mInfo
	hasTags  bool
	tags     [][2]uint32
	hasMem   bool
	members  []mMember
}

type mBlock struct {
	st                                     []string
	hasGran, hasDG, hasLatOff, hasLonOff   bool
	gran, dg                               int32
	latOff, lonOff                         int64
	width                                  int
	exact                                  bool // generators use their maximum counts instead of case-splitting
	// dense group
	hasDense  bool
	nodes     []mNode
	hasDInfo  bool
	dinfoMask int // bit i => dense info column i+1 present
	hasKV     bool
	ways      []mWay
	rels      []mRel
	mixed     bool // ways and relations share one primitive group (the decoder accepts it)
	second    *mBlock // a second dense group of the same block (shares string table and parameters)
}

// secondDense adds a second dense primitive group to the block.
func (m *mBlock) secondDense() *mBlock {
	s := &mBlock{st: m.st, width: m.width, exact: m.exact,
		hasGran: m.hasGran, hasDG: m.hasDG, hasLatOff: m.hasLatOff, hasLonOff: m.hasLonOff,
		gran: m.gran, dg: m.dg, latOff: m.latOff, lonOff: m.lonOff}
	m.second = s
	return s
}

func (m *mBlock) granularity() int64 {
	if m.hasGran {
		return int64(m.gran)
	}
	return 100
}
func (m *mBlock) dateGran() int64 {
	if m.hasDG {
		return int64(m.dg)
	}
	return 1000
}
func (m *mBlock) latOffset() int64 {
	if m.hasLatOff {
		return m.latOff
	}
	return 0
}
func (m *mBlock) lonOffset() int64 {
	if m.hasLonOff {
		return m.lonOff
	}
	return 0
}

// symU / symS: fresh symbolic values that fit the block's varint width.
func (m *mBlock) symU(name string) uint64 {
	v := vU64(name)
	vAssume(fits(v, m.width))
	return v
}
func (m *mBlock) symS(name string) int64 {
	v := vInt64(name)
	vAssume(fits(zig(v), m.width))
	return v
}
func (m *mBlock) symI32(name string) int32 { // non-negative int32 sent as plain varint
	v := vI32(name)
	vAssume(vAnd(v >= 0, fits(uint64(v), m.width)))
	return v
}
func (m *mBlock) symSid(name string) uint32 {
	v := vU32(name)
	vAssume(v < uint32(len(m.st)))
	return v
}

func (m *mBlock) symInfo() mInfo {
	return mInfo{version: m.symI32("version"), ts: m.symS("ts"), cs: m.symS("cs"), uid: int32(m.symS32("uid")), usid: m.symSid("usid"), visible: vBool("visible")}
}
func (m *mBlock) symS32(name string) int32 {
	v := vI32(name)
	vAssume(fits(zig(int64(v)), m.width))
	return v
}

// genParams chooses the block parameters: mode 0 none present, 1 all present, 2..5 exactly one.
func (m *mBlock) genParams(mode int) {
	m.hasGran = mode == 1 || mode == 2
	m.hasDG = mode == 1 || mode == 3
	m.hasLatOff = mode == 1 || mode == 4
	m.hasLonOff = mode == 1 || mode == 5
	if m.hasGran {
		m.gran = m.symI32("granularity")
	}
	if m.hasDG {
		m.dg = m.symI32("dategran")
	}
	if m.hasLatOff {
		m.latOff = int64(m.symU("latoff"))
	}
	if m.hasLonOff {
		m.lonOff = int64(m.symU("lonoff"))
	}
}

func (m *mBlock) genStrings(n int) {
	// one-byte strings with symbolic content (strings are only copied by the decoder)
	for i := 0; i < n; i++ {
		m.st = append(m.st, vStr("str", 1))
	}
}

// ---- encoding

func (m *mBlock) encodeDense() []byte {
	var g pbw
	wd := m.width
	var ids, lats, lons []uint64
	var pid, plat, plon int64
	for _, n := range m.nodes {
		ids = append(ids, zig(n.id-pid))
		lats = append(lats, zig(n.lat-plat))
		lons = append(lons, zig(n.lon-plon))
		pid, plat, plon = n.id, n.lat, n.lon
	}
	// delta values must fit too
	for i := range ids {
		vAssume(vAnd(fits(ids[i], wd), vAnd(fits(lats[i], wd), fits(lons[i], wd))))
	}
	g.packed(1, ids, wd)
	if m.hasDInfo {
		var di pbw
		var vs, tss, css, uids, usids, viss []uint64
		var pts, pcs int64
		var puid, pusid int32
		for _, n := range m.nodes {
			vs = append(vs, uint64(n.info.version))
			tss = append(tss, zig(n.info.ts-pts))
			css = append(css, zig(n.info.cs-pcs))
			uids = append(uids, zig(int64(n.info.uid-puid)))
			usids = append(usids, zig(int64(int32(n.info.usid)-pusid)))
			viss = append(viss, vB2U(n.info.visible))
			pts, pcs, puid, pusid = n.info.ts, n.info.cs, n.info.uid, int32(n.info.usid)
		}
		for i := range vs {
			vAssume(vAnd(vAnd(fits(tss[i], wd), fits(css[i], wd)), vAnd(fits(uids[i], wd), fits(usids[i], wd))))
		}
		if m.dinfoMask&1 != 0 {
			di.packed(1, vs, wd)
		}
		if m.dinfoMask&2 != 0 {
			di.packed(2, tss, wd)
		}
		if m.dinfoMask&4 != 0 {
			di.packed(3, css, wd)
		}
		if m.dinfoMask&8 != 0 {
			di.packed(4, uids, wd)
		}
		if m.dinfoMask&16 != 0 {
			di.packed(5, usids, wd)
		}
		if m.dinfoMask&32 != 0 {
			di.packed(6, viss, 1)
		}
		g.bytesField(5, di.b)
	}
	g.packed(8, lats, wd)
	g.packed(9, lons, wd)
	if m.hasKV {
		var kv []uint64
		for _, n := range m.nodes {
			for _, t := range n.tags {
				kv = append(kv, uint64(t[0]), uint64(t[1]))
			}
			kv = append(kv, 0)
		}
		g.packed(10, kv, 1)
	}
	return g.b
}

func (m *mBlock) encodeInfo(i mInfo, mask int) []byte {
	var w pbw
	wd := m.width
	if mask&1 != 0 {
		w.varintField(1, uint64(i.version), wd)
	}
	if mask&2 != 0 {
		w.varintField(2, uint64(i.ts), wd)
	}
	if mask&4 != 0 {
		w.varintField(3, uint64(i.cs), wd)
	}
	if mask&8 != 0 {
		w.varintField(4, uint64(i.uid), wd)
	}
	if mask&16 != 0 {
		w.varintField(5, uint64(i.usid), 1)
	}
	if mask&32 != 0 {
		w.varintField(6, vB2U(i.visible), 1)
	}
	return w.b
}

func (m *mBlock) encodeTags(w *pbw, tags [][2]uint32) {
	var ks, vs []uint64
	for _, t := range tags {
		ks = append(ks, uint64(t[0]))
		vs = append(vs, uint64(t[1]))
	}
	w.packed(2, ks, 1)
	w.packed(3, vs, 1)
}

func (m *mBlock) encodeWay(x *mWay) []byte {
	var w pbw
	wd := m.width
	w.varintField(1, uint64(x.id), wd)
	if x.hasTags {
		m.encodeTags(&w, x.tags)
	}
	if x.hasInfo {
		w.bytesField(4, m.encodeInfo(x.info, x.infoMask))
	}
	delta := func(vals []int64) []uint64 {
		var out []uint64
		var p int64
		for _, v := range vals {
			d := zig(v - p)
			vAssume(fits(d, wd))
			out = append(out, d)
			p = v
		}
		return out
	}
	if x.hasRefs {
		w.packed(8, delta(x.refs), wd)
	}
	if x.hasLL {
		w.packed(9, delta(x.lats), wd)
		w.packed(10, delta(x.lons), wd)
	}
	return w.b
}

func (m *mBlock) encodeRel(x *mRel) []byte {
	var w pbw
	wd := m.width
	w.varintField(1, uint64(x.id), wd)
	if x.hasTags {
		m.encodeTags(&w, x.tags)
	}
	if x.hasInfo {
		w.bytesField(4, m.encodeInfo(x.info, x.infoMask))
	}
	if x.hasMem {
		var roles, ids, types []uint64
		var p int64
		for _, mm := range x.members {
			roles = append(roles, uint64(mm.role))
			d := zig(mm.id - p)
			vAssume(fits(d, wd))
			ids = append(ids, d)
			p = mm.id
			types = append(types, uint64(mm.typ))
		}
		w.packed(8, roles, 1)
		w.packed(9, ids, wd)
		w.packed(10, types, 1)
	}
	return w.b
}

// encode produces the PrimitiveBlock bytes. Groups: dense group (if any), then one
// group holding the ways, then one holding the relations.
func (m *mBlock) encode() []byte {
	var w pbw
	var st pbw
	for _, s := range m.st {
		st.bytesField(1, []byte(s))
	}
	w.bytesField(1, st.b)
	if m.hasDense {
		var g pbw
		g.bytesField(2, m.encodeDense())
		w.bytesField(2, g.b)
	}
	if m.second != nil && m.second.hasDense {
		var g pbw
		g.bytesField(2, m.second.encodeDense())
		w.bytesField(2, g.b)
	}
	if m.mixed {
		var g pbw
		for i := range m.ways {
			g.bytesField(3, m.encodeWay(&m.ways[i]))
		}
		for i := range m.rels {
			g.bytesField(4, m.encodeRel(&m.rels[i]))
		}
		w.bytesField(2, g.b)
	} else {
		if len(m.ways) > 0 {
			var g pbw
			for i := range m.ways {
				g.bytesField(3, m.encodeWay(&m.ways[i]))
			}
			w.bytesField(2, g.b)
		}
		if len(m.rels) > 0 {
			var g pbw
			for i := range m.rels {
				g.bytesField(4, m.encodeRel(&m.rels[i]))
			}
			w.bytesField(2, g.b)
		}
	}
	if m.hasGran {
		w.varintField(17, uint64(m.gran), m.width)
	}
	if m.hasDG {
		w.varintField(18, uint64(m.dg), m.width)
	}
	if m.hasLatOff {
		w.varintField(19, uint64(m.latOff), m.width)
	}
	if m.hasLonOff {
		w.varintField(20, uint64(m.lonOff), m.width)
	}
	return w.b
}

// ---- expected objects (the format's definitions)

func (m *mBlock) stamp(raw int64) time.Time {
	ms := time.Duration(raw*m.dateGran()) * time.Millisecond
	return time.Unix(0, ms.Nanoseconds()).UTC()
}

func (m *mBlock) coord(off, raw int64) float64 {
	return 1e-9 * float64(off+m.granularity()*raw)
}

func (m *mBlock) tagsOf(tags [][2]uint32) osm.Tags {
	var out osm.Tags
	for _, t := range tags {
		out = append(out, osm.Tag{Key: m.st[t[0]], Value: m.st[t[1]]})
	}
	return out
}

func (m *mBlock) expectedNodes() []*osm.Node {
	var out []*osm.Node
	for _, n := range m.nodes {
		e := &osm.Node{ID: osm.NodeID(n.id), Visible: true, Lat: m.coord(m.latOffset(), n.lat), Lon: m.coord(m.lonOffset(), n.lon)}
		if m.hasDInfo {
			if m.dinfoMask&1 != 0 {
				e.Version = int(n.info.version)
			}
			if m.dinfoMask&2 != 0 {
				e.Timestamp = m.stamp(n.info.ts)
			}
			if m.dinfoMask&4 != 0 {
				e.ChangesetID = osm.ChangesetID(n.info.cs)
			}
			if m.dinfoMask&8 != 0 {
				e.UserID = osm.UserID(n.info.uid)
			}
			if m.dinfoMask&16 != 0 {
				e.User = m.st[n.info.usid]
			}
			if m.dinfoMask&32 != 0 {
				e.Visible = n.info.visible
			}
		}
		if m.hasKV {
			e.Tags = m.tagsOf(n.tags)
		}
		out = append(out, e)
	}
	return out
}

func (m *mBlock) applyInfo(has bool, mask int, i mInfo, version *int, ts *time.Time, cs *osm.ChangesetID, uid *osm.UserID, user *string, visible *bool) {
	*visible = true
	if !has {
		return
	}
	if mask&1 != 0 {
		*version = int(i.version)
	}
	if mask&2 != 0 {
		*ts = m.stamp(i.ts)
	}
	if mask&4 != 0 {
		*cs = osm.ChangesetID(i.cs)
	}
	if mask&8 != 0 {
		*uid = osm.UserID(i.uid)
	}
	if mask&16 != 0 {
		*user = m.st[i.usid]
	}
	if mask&32 != 0 {
		*visible = i.visible
	}
}

func (m *mBlock) expectedWays() []*osm.Way {
	var out []*osm.Way
	for i := range m.ways {
		x := &m.ways[i]
		e := &osm.Way{ID: osm.WayID(x.id)}
		m.applyInfo(x.hasInfo, x.infoMask, x.info, &e.Version, &e.Timestamp, &e.ChangesetID, &e.UserID, &e.User, &e.Visible)
		if x.hasTags {
			e.Tags = m.tagsOf(x.tags)
		}
		n := 0
		if x.hasRefs {
			n = len(x.refs)
		} else if x.hasLL {
			n = len(x.lats)
		}
		for j := 0; j < n; j++ {
			var wn osm.WayNode
			if x.hasRefs {
				wn.ID = osm.NodeID(x.refs[j])
			}
			if x.hasLL {
				wn.Lat = m.coord(m.latOffset(), x.lats[j])
				wn.Lon = m.coord(m.lonOffset(), x.lons[j])
			}
			e.Nodes = append(e.Nodes, wn)
		}
		out = append(out, e)
	}
	return out
}

func (m *mBlock) expectedRels() []*osm.Relation {
	var out []*osm.Relation
	for i := range m.rels {
		x := &m.rels[i]
		e := &osm.Relation{ID: osm.RelationID(x.id)}
		m.applyInfo(x.hasInfo, x.infoMask, x.info, &e.Version, &e.Timestamp, &e.ChangesetID, &e.UserID, &e.User, &e.Visible)
		if x.hasTags {
			e.Tags = m.tagsOf(x.tags)
		}
		if x.hasMem {
			for _, mm := range x.members {
				mem := osm.Member{Ref: mm.id, Role: m.st[mm.role]}
				switch mm.typ {
				case 0:
					mem.Type = osm.TypeNode
				case 1:
					mem.Type = osm.TypeWay
				case 2:
					mem.Type = osm.TypeRelation
				}
				e.Members = append(e.Members, mem)
			}
		}
		out = append(out, e)
	}
	return out
}

func (m *mBlock) expected() []osm.Object {
	var out []osm.Object
	for _, n := range m.expectedNodes() {
		out = append(out, n)
	}
	if m.second != nil {
		for _, n := range m.second.expectedNodes() {
			out = append(out, n)
		}
	}
	for _, w := range m.expectedWays() {
		out = append(out, w)
	}
	for _, r := range m.expectedRels() {
		out = append(out, r)
	}
	return out
}

// ---- generators

func (m *mBlock) count(name string, max int) int {
	if m.exact {
		return max
	}
	return vRange(name, 0, max)
}

// infoMaskMode: 0 => 63 (all), 1..6 => all but bit mode-1, 7 => none of the fields
func maskOf(mode int) int {
	switch {
	case mode == 0:
		return 63
	case mode <= 6:
		return 63 &^ (1 << uint(mode-1))
	}
	return 0
}

func (m *mBlock) genDense(nNodes, infoMode, maxTags int, kv bool) {
	m.hasDense = true
	m.hasDInfo = infoMode >= 0
	if m.hasDInfo {
		m.dinfoMask = maskOf(infoMode)
	}
	m.hasKV = kv
	for i := 0; i < nNodes; i++ {
		n := mNode{id: m.symS("id"), lat: m.symS("lat"), lon: m.symS("lon")}
		if m.hasDInfo {
			n.info = m.symInfo()
		}
		if kv {
			nt := m.count("ntags", maxTags)
			for j := 0; j < nt; j++ {
				k, v := m.symSid("k"), m.symSid("v")
				vAssume(k != 0) // 0 is the delimiter in keys_vals
				n.tags = append(n.tags, [2]uint32{k, v})
			}
		}
		m.nodes = append(m.nodes, n)
	}
}

func (m *mBlock) genTags(max int) [][2]uint32 {
	var t [][2]uint32
	n := m.count("ntags", max)
	for j := 0; j < n; j++ {
		t = append(t, [2]uint32{m.symSid("k"), m.symSid("v")})
	}
	return t
}

func (m *mBlock) genWay(infoMode, maxTags, maxRefs int, refsMode int) mWay {
	w := mWay{id: int64(m.symU("wid")) & 0x3fffffffffffffff}
	w.hasInfo = infoMode >= 0
	if w.hasInfo {
		w.infoMask = maskOf(infoMode)
		w.info = m.symInfo()
		// Info.timestamp/changeset/uid are plain varints: keep them non-negative at this width
		vAssume(vAnd(w.info.ts >= 0, vAnd(w.info.cs >= 0, w.info.uid >= 0)))
		vAssume(vAnd(fits(uint64(w.info.ts), m.width), vAnd(fits(uint64(w.info.cs), m.width), fits(uint64(w.info.uid), m.width))))
	}
	w.hasTags = maxTags >= 0
	if w.hasTags {
		w.tags = m.genTags(maxTags)
	}
	// refsMode: 0 none, 1 refs only, 2 refs + lat/lon, 3 lat/lon only
	w.hasRefs = refsMode == 1 || refsMode == 2
	w.hasLL = refsMode >= 2
	if refsMode > 0 {
		n := m.count("nrefs", maxRefs)
		for j := 0; j < n; j++ {
			if w.hasRefs {
				w.refs = append(w.refs, m.symS("ref"))
			}
			if w.hasLL {
				w.lats = append(w.lats, m.symS("wlat"))
				w.lons = append(w.lons, m.symS("wlon"))
			}
		}
	}
	return w
}

func (m *mBlock) genRel(infoMode, maxTags, maxMem int, hasMem bool) mRel {
	r := mRel{id: int64(m.symU("rid")) & 0x3fffffffffffffff}
	r.hasInfo = infoMode >= 0
	if r.hasInfo {
		r.infoMask = maskOf(infoMode)
		r.info = m.symInfo()
		vAssume(vAnd(r.info.ts >= 0, vAnd(r.info.cs >= 0, r.info.uid >= 0)))
		vAssume(vAnd(fits(uint64(r.info.ts), m.width), vAnd(fits(uint64(r.info.cs), m.width), fits(uint64(r.info.uid), m.width))))
	}
	r.hasTags = maxTags >= 0
	if r.hasTags {
		r.tags = m.genTags(maxTags)
	}
	r.hasMem = hasMem
	if hasMem {
		n := m.count("nmembers", maxMem)
		for j := 0; j < n; j++ {
			typ := 1
			if !m.exact {
				typ = vRange("memtype", 0, 2)
			}
			r.members = append(r.members, mMember{role: m.symSid("role"), id: m.symS("memid"), typ: int32(typ)})
		}
	}
	return r
}

// ---- damaged encodings used by C06

// encodeMissingDense encodes the block with one mandatory dense column left out
// (0 ids, 1 lat, 2 lon).
func (m *mBlock) encodeMissingDense(which int) []byte {
	var g pbw
	wd := m.width
	n := m.nodes[0]
	if which != 0 {
		g.packed(1, []uint64{zig(n.id)}, wd)
	}
	if which != 1 {
		g.packed(8, []uint64{zig(n.lat)}, wd)
	}
	if which != 2 {
		g.packed(9, []uint64{zig(n.lon)}, wd)
	}
	return m.wrapDense(g.b)
}

func (m *mBlock) wrapDense(dense []byte) []byte {
	var grp pbw
	grp.bytesField(2, dense)
	var w pbw
	var st pbw
	for _, s := range m.st {
		st.bytesField(1, []byte(s))
	}
	w.bytesField(1, st.b)
	w.bytesField(2, grp.b)
	return w.b
}

func (m *mBlock) encodeShortLat() []byte {
	var g pbw
	wd := m.width
	g.packed(1, []uint64{zig(m.nodes[0].id), zig(m.nodes[1].id - m.nodes[0].id)}, wd)
	vAssume(fits(zig(m.nodes[1].id-m.nodes[0].id), wd))
	g.packed(8, []uint64{zig(m.nodes[0].lat)}, wd)
	g.packed(9, []uint64{zig(m.nodes[0].lon), zig(m.nodes[1].lon - m.nodes[0].lon)}, wd)
	vAssume(fits(zig(m.nodes[1].lon-m.nodes[0].lon), wd))
	return m.wrapDense(g.b)
}

func (m *mBlock) encodeRelExtraRole() []byte {
	x := &m.rels[0]
	var r pbw
	wd := m.width
	r.varintField(1, uint64(x.id), wd)
	r.packed(8, []uint64{uint64(x.members[0].role), uint64(x.members[0].role)}, 1)
	r.packed(9, []uint64{zig(x.members[0].id), zig(0)}, wd)
	r.packed(10, []uint64{uint64(x.members[0].typ)}, 1)
	var g pbw
	g.bytesField(4, r.b)
	var w pbw
	var st pbw
	for _, s := range m.st {
		st.bytesField(1, []byte(s))
	}
	w.bytesField(1, st.b)
	w.bytesField(2, g.b)
	return w.b
}
