//go:build verif

package osmpbf

import (
	"context"

	"github.com/paulmach/osm"
)

// c07File: first block holds `first` nodes, then `extra` minimal data blocks.
func c07File(first, extra int) *c09File {
	c := &c09File{f: &mFile{hasHeader: true, header: simpleHeader()}}
	m := simpleBlock(first)
	c.f.blocks = append(c.f.blocks, m)
	for _, o := range m.expected() {
		c.want = append(c.want, o)
		c.blockOf = append(c.blockOf, 0)
	}
	for i := 0; i < extra; i++ {
		e := &mBlock{width: 1}
		e.genStrings(0)
		if i == extra-1 {
			e = simpleBlock(1)
			for _, o := range e.expected() {
				c.want = append(c.want, o)
				c.blockOf = append(c.blockOf, i+1)
			}
		}
		c.f.blocks = append(c.f.blocks, e)
	}
	c.f.build()
	return c
}

// VerifH_C07_stopInput: Close / cancel after k objects returns without consuming the
// rest of the input (at most the block in flight), later Scan is false, Err follows
// the precedence table, all goroutines terminate.
func VerifH_C07_stopInput() {
	procs := vRange("procs", 1, vParam("maxProcs", 2))
	c := c07File(2, vParam("extraBlocks", 30))
	ctx, cancel := context.WithCancel(context.Background())
	r := &vReader{data: c.f.data}
	sc := New(ctx, r, procs)
	k := vRange("scansBeforeStop", 0, 2)
	for i := 0; i < k; i++ {
		if !sc.Scan() {
			vAssert(false, "scan-ended-early")
			return
		}
		vAssert(vSame(sc.Object(), c.want[i]), "object-in-order")
	}
	byCancel := vRange("byCancel", 0, 1) == 1
	biggest := 0
	for _, b := range c.f.raw {
		if len(b) > biggest {
			biggest = len(b)
		}
	}
	if k == 0 && vRange("headerFirst", 0, 1) == 1 {
		_, err := sc.Header()
		vAssert(err == nil, "header-ok")
	}
	p0 := r.pos
	if byCancel {
		cancel()
	} else {
		vAssert(sc.Close() == nil, "close-returns-nil")
	}
	vReach("stopped")
	vAssert(!sc.Scan(), "scan-false-after-stop")
	vAssert(!sc.Scan(), "scan-false-forever")
	if byCancel {
		vAssert(sc.Err() == context.Canceled, "err-is-context-error")
		sc.Close()
		vAssert(sc.Err() != nil, "err-stays-non-nil-after-close")
	} else {
		vAssert(sc.Err() == osm.ErrScannerClosed, "err-is-scanner-closed")
		cancel()
		vAssert(sc.Err() == osm.ErrScannerClosed, "closed-error-kept-after-cancel")
	}
	vQuiesce()
	vAssert(vGoroutines() == 0, "goroutines-terminated")
	if p0 > 0 || k > 0 {
		vAssert(r.pos-p0 <= biggest, "at-most-one-block-read-after-stop")
	}
	vAssert(r.pos < len(c.f.data), "rest-of-input-not-consumed")
}

// VerifH_C07_complete: Err is nil only after a complete scan; Close afterwards keeps it... closed.
func VerifH_C07_complete() {
	procs := vRange("procs", 1, vParam("maxProcs", 2))
	c := c09Build(vRange("blocks", 1, 2), 1, true)
	ctx, cancel := context.WithCancel(context.Background())
	sc := New(ctx, &vReader{data: c.f.data}, procs)
	n := 0
	for sc.Scan() {
		n++
		if n > len(c.want) {
			break
		}
	}
	vReach("complete")
	vAssert(n == len(c.want), "all-objects")
	vAssert(sc.Err() == nil, "nil-after-complete-scan")
	vAssert(!sc.Scan(), "scan-false-after-end")
	vAssert(sc.Err() == nil, "still-nil")
	sc.Close()
	cancel()
	vQuiesce()
	vAssert(vGoroutines() == 0, "goroutines-terminated")
}

// VerifH_C07_concurrentCancel: the context is cancelled by another goroutine while
// the scan is in progress: no data race, scan ends, Err is the context error.
func VerifH_C07_concurrentCancel() {
	procs := vRange("procs", 1, vParam("maxProcs", 1))
	nb := vParam("blocks", 2)
	c := &c09File{f: &mFile{hasHeader: true, header: simpleHeader()}}
	for b := 0; b < nb; b++ {
		m := simpleBlock(vRange("nodesInBlock", 0, 1))
		c.f.blocks = append(c.f.blocks, m)
		for _, o := range m.expected() {
			c.want = append(c.want, o)
		}
	}
	c.f.build()
	ctx, cancel := context.WithCancel(context.Background())
	sc := New(ctx, &vReader{data: c.f.data}, procs)
	done := make(chan struct{})
	go func() {
		cancel()
		close(done)
	}()
	n := 0
	for sc.Scan() {
		n++
		if n > len(c.want) {
			break
		}
	}
	<-done
	vReach("ended")
	err := sc.Err()
	// the scan either completed before the cancel was seen, or reports the context error
	vAssert(err == nil || err == context.Canceled, "err-is-nil-or-context-error")
	if err == nil {
		vAssert(n == len(c.want), "nil-only-after-complete-scan")
	}
	// once cancelled, the context error is what a caller sees from now on
	vAssert(!sc.Scan(), "scan-false-after-cancel")
	sc.Close()
	vQuiesce()
	vAssert(vGoroutines() == 0, "goroutines-terminated")
}

// gatedReader blocks before serving byte offset gateAt until the gate is closed.
type gatedReader struct {
	vReader
	gateAt int
	gate   chan struct{}
	passed bool
}

func (r *gatedReader) Read(p []byte) (int, error) {
	if !r.passed && r.pos >= r.gateAt {
		<-r.gate
		r.passed = true
	}
	if !r.passed && r.pos+len(p) > r.gateAt {
		p = p[:r.gateAt-r.pos]
	}
	return r.vReader.Read(p)
}

// VerifH_C07_cancelWhileStalled: the pipeline is stalled on a slow reader after the
// consumer has taken a block; another goroutine cancels the context. The scan must
// end with the context error, without a data race on the decoder's shared state.
func VerifH_C07_cancelWhileStalled() {
	procs := vRange("procs", 1, vParam("maxProcs", 2))
	c := c09Build(3, 1, true)
	// exactly one node in the first block so that the consumer takes a block first
	if len(c.f.blocks[0].nodes) != 1 {
		return
	}
	ctx, cancel := context.WithCancel(context.Background())
	r := &gatedReader{vReader: vReader{data: c.f.data}, gateAt: int(c.blockOffset(1)), gate: make(chan struct{})}
	sc := New(ctx, r, procs)
	done := make(chan struct{})
	go func() { // an independent goroutine: nothing orders it after the consumer's progress
		vSleep(50)
		cancel()
		close(done)
	}()
	if !sc.Scan() {
		// cancelled before the first object was delivered
		vAssert(sc.Err() == context.Canceled, "early-cancel-err")
		<-done
		close(r.gate)
		sc.Close()
		return
	}
	<-done
	vQuiesce() // let the pipeline observe the cancellation while the reader is stalled
	close(r.gate)
	ok := sc.Scan()
	vReach("after-cancel")
	vAssert(!ok, "scan-false-after-cancel")
	vAssert(sc.Err() == context.Canceled, "err-is-context-error")
	sc.Close()
	vQuiesce()
	vAssert(vGoroutines() == 0, "goroutines-terminated")
}

// VerifH_C07_cancelFromFilter: the context is cancelled while a decoder goroutine is
// inside a user filter callback (i.e. while the consumer is blocked in Scan). The
// scan must not end as a silent success with objects missing.
func VerifH_C07_cancelFromFilter() {
	procs := vRange("procs", 1, vParam("maxProcs", 2))
	c := c09Build(1, 1, true)
	if len(c.want) != 1 {
		return
	}
	ctx, cancel := context.WithCancel(context.Background())
	sc := New(ctx, &vReader{data: c.f.data}, procs)
	sc.FilterNode = func(*osm.Node) bool {
		cancel()
		return true
	}
	n := 0
	for sc.Scan() {
		n++
		if n > 1 {
			break
		}
	}
	vReach("ended")
	err := sc.Err()
	vAssert(err == nil || err == context.Canceled, "err-is-nil-or-context-error")
	if err == nil {
		vAssert(n == len(c.want), "nil-only-after-complete-scan")
	}
	sc.Close()
	vQuiesce()
	vAssert(vGoroutines() == 0, "goroutines-terminated")
}

// VerifH_C07_stopNearEnd: Close after k objects on short files (the end-of-file
// marker is already in the pipeline): Close returns, goroutines end, Scan stays false.
func VerifH_C07_stopNearEnd() {
	procs := vRange("procs", 1, vParam("maxProcs", 2))
	nb := vRange("blocks", 1, vParam("maxBlocks", 3))
	c := &c09File{f: &mFile{hasHeader: true, header: simpleHeader()}}
	for b := 0; b < nb; b++ {
		m := simpleBlock(1)
		c.f.blocks = append(c.f.blocks, m)
		c.want = append(c.want, m.expected()...)
	}
	c.f.build()
	sc := New(context.Background(), &vReader{data: c.f.data}, procs)
	k := vRange("scansBeforeStop", 0, nb)
	for i := 0; i < k; i++ {
		vAssert(sc.Scan(), "scan-before-stop")
	}
	vQuiesce() // let the pipeline run as far ahead as it can
	vAssert(sc.Close() == nil, "close-returns")
	vReach("closed")
	vAssert(!sc.Scan(), "scan-false-after-close")
	vQuiesce()
	vAssert(vGoroutines() == 0, "goroutines-terminated")
}

// VerifH_C07_closeAfterStartError: the scan never starts (empty input, input cut inside
// the header block, a header with an unsupported required feature): Scan is false, Err
// reports it, and Close still returns (no goroutine was left to wait for).
func VerifH_C07_closeAfterStartError() {
	var data []byte
	switch vRange("startError", 0, 2) {
	case 0: // empty input
	case 1: // cut inside the header block
		h := frame("OSMHeader", simpleHeader())
		data = h[:vRange("cut", 1, len(h)-1)]
	case 2: // unsupported required feature
		var h pbw
		h.bytesField(4, []byte("Sort.Type_then_ID"))
		data = frame("OSMHeader", h.b)
	}
	kindOfError := len(data) // 0: empty input, which the scanner treats as the (clean) end of an empty file
	sc := New(context.Background(), &vReader{data: data}, vRange("procs", 1, 2))
	first := vRange("firstCall", 0, 1) // Header() or Scan() first
	if first == 0 {
		_, err := sc.Header()
		vAssert(err != nil, "header-reports-the-start-error")
	}
	vAssert(!sc.Scan(), "scan-false")
	vReach("not-started")
	if kindOfError != 0 {
		vAssert(sc.Err() != nil, "err-reports-the-start-error")
	}
	vAssert(sc.Close() == nil || true, "close-returns")
	vAssert(!sc.Scan(), "scan-false-after-close")
	vQuiesce()
	vAssert(vGoroutines() == 0, "goroutines-terminated")
}
