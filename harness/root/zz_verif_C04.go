//go:build verif

package osm

import (
	"bytes"
	"encoding/xml"
	"time"
)

// optional header string: empty or a one-byte symbolic string
func c04Opt(name string) string {
	if vRange(name+"Set", 0, 1) == 0 {
		return ""
	}
	s := vStr(name, 1)
	vAssume(vAnd(s[0] >= 'a', s[0] <= 'z'))
	return s
}

func c04Attrs(ev vXMLEvent, version, generator, copyright, attribution, license string) bool {
	names := []string{"version", "generator", "copyright", "attribution", "license"}
	vals := []string{version, generator, copyright, attribution, license}
	k := 0
	ok := true
	for i := range names {
		if vals[i] == "" {
			continue
		}
		if k >= len(ev.Attrs) {
			return false
		}
		ok = vAnd(ok, vAnd(ev.Attrs[k].Name == names[i], ev.Attrs[k].Value == vals[i]))
		k++
	}
	return vAnd(ok, k == len(ev.Attrs))
}

// c04Inner: an OSM block with a case-split population; returns the block and the
// element names expected, in order, at the next depth.
func c04Inner(tag string) (*OSM, []string) {
	o := &OSM{}
	var names []string
	if vRange(tag+"Bounds", 0, 1) == 1 {
		o.Bounds = &Bounds{MinLat: 1, MaxLat: 2, MinLon: 3, MaxLon: 4}
		names = append(names, "bounds")
	}
	pop := vRange(tag+"Population", 0, 7)
	switch pop {
	case 1:
		o.Nodes = Nodes{{ID: 1, Version: 1, Visible: true}}
		names = append(names, "node")
	case 2:
		o.Nodes = Nodes{{ID: 1, Version: 1}, {ID: 2, Version: 1}}
		o.Ways = Ways{{ID: 3, Version: 1}}
		o.Relations = Relations{{ID: 4, Version: 1}}
		names = append(names, "node", "node", "way", "relation")
	case 3:
		o.Changesets = Changesets{{ID: 5}}
		names = append(names, "changeset")
	case 4:
		o.Notes = Notes{{ID: 6}}
		names = append(names, "note")
	case 5:
		o.Users = Users{{ID: 7}}
		names = append(names, "user")
	case 6:
		o.Ways = Ways{{ID: 3, Version: 1}}
		o.Users = Users{{ID: 7}}
		names = append(names, "way", "user")
	case 7:
		o.Relations = Relations{{ID: 4, Version: 1}}
		o.Changesets = Changesets{{ID: 5}}
		o.Notes = Notes{{ID: 6}}
		names = append(names, "relation", "changeset", "note")
	}
	return o, names
}

func c04Names(evs []vXMLEvent, depth int) []string {
	var out []string
	for _, e := range evs {
		if e.Depth == depth {
			out = append(out, e.Name)
		}
	}
	return out
}

// VerifH_C04_osmMarshal: the hand-written OSM marshaller emits the OSM XML element
// and attribute names that this library's decoder and streaming scanner accept.
func VerifH_C04_osmMarshal() {
	o, names := c04Inner("osm")
	o.Version, o.Generator, o.Copyright, o.Attribution, o.License = c04Opt("version"), c04Opt("generator"), c04Opt("copyright"), c04Opt("attribution"), c04Opt("license")
	buf := &bytes.Buffer{}
	enc := xml.NewEncoder(buf)
	err := enc.Encode(o)
	vReach("marshalled")
	vAssert(err == nil, "no-error")
	evs := vXMLLog(enc, buf, 1)
	vAssert(len(evs) > 0 && evs[0].Depth == 0 && evs[0].Name == "osm", "root-element-is-osm")
	if len(evs) == 0 {
		return
	}
	vAssert(evs[len(evs)-1].Name != "!unbalanced", "start-and-end-tokens-balance")
	vAssert(c04Attrs(evs[0], o.Version, o.Generator, o.Copyright, o.Attribution, o.License), "header-attributes-iff-non-empty")
	vAssert(vSame(c04Names(evs, 1), names), "element-names-are-the-osm-xml-names-in-order")
}

// VerifH_C04_changeMarshal: osmChange blocks.
func VerifH_C04_changeMarshal() {
	c := &Change{Version: c04Opt("version"), Generator: c04Opt("generator"), License: c04Opt("license")}
	var blocks []string
	var inner []string
	if vRange("hasCreate", 0, 1) == 1 {
		var n []string
		c.Create, n = c04Inner("create")
		blocks = append(blocks, "create")
		inner = append(inner, n...)
	}
	if vRange("hasModify", 0, 1) == 1 {
		var n []string
		c.Modify, n = c04Inner("modify")
		blocks = append(blocks, "modify")
		inner = append(inner, n...)
	}
	if vRange("hasDelete", 0, 1) == 1 {
		c.Delete = &OSM{Nodes: Nodes{{ID: 9, Version: 2}}}
		blocks = append(blocks, "delete")
		inner = append(inner, "node")
	}
	buf := &bytes.Buffer{}
	enc := xml.NewEncoder(buf)
	err := enc.Encode(c)
	vReach("marshalled")
	vAssert(err == nil, "no-error")
	evs := vXMLLog(enc, buf, 2)
	vAssert(len(evs) > 0 && evs[0].Depth == 0 && evs[0].Name == "osmChange", "root-element-is-osmChange")
	if len(evs) == 0 {
		return
	}
	vAssert(evs[len(evs)-1].Name != "!unbalanced", "start-and-end-tokens-balance")
	vAssert(c04Attrs(evs[0], c.Version, c.Generator, "", "", c.License), "header-attributes-iff-non-empty")
	vAssert(vSame(c04Names(evs, 1), blocks), "create-modify-delete-blocks-in-order-nil-omitted")
	vAssert(vSame(c04Names(evs, 2), inner), "block-contents-use-the-osm-xml-names")
}

// VerifH_C04_actionRoundTrip: Action.MarshalXML output fed back to Action.UnmarshalXML.
func VerifH_C04_actionRoundTrip() {
	typ := []ActionType{ActionCreate, ActionModify, ActionDelete}[vRange("type", 0, 2)]
	a := Action{Type: typ}
	var toks []vXMLTok
	var names []string
	if typ == ActionCreate {
		switch vRange("createKind", 0, 2) {
		case 0:
			a.OSM = &OSM{Nodes: Nodes{{ID: 1, Version: 1, Visible: true}}}
		case 1:
			a.OSM = &OSM{Ways: Ways{{ID: 2, Version: 1, Visible: true}}}
		case 2:
			a.OSM = &OSM{Relations: Relations{{ID: 3, Version: 1, Visible: true}}}
		}
	} else {
		a.Old = &OSM{Nodes: Nodes{{ID: 1, Version: 1, Visible: true}}}
		a.New = &OSM{Nodes: Nodes{{ID: 1, Version: 2, Visible: typ == ActionModify}}}
	}
	buf := &bytes.Buffer{}
	enc := xml.NewEncoder(buf)
	err := enc.EncodeElement(a, xml.StartElement{Name: xml.Name{Local: "action"}})
	vReach("marshalled")
	vAssert(err == nil, "no-error")
	evs := vXMLLog(enc, buf, 1)
	vAssert(len(evs) > 0 && evs[0].Name == "action" && len(evs[0].Attrs) == 1 && evs[0].Attrs[0].Name == "type" && evs[0].Attrs[0].Value == string(typ), "action-element-with-type-attribute")
	if a.OSM != nil {
		if len(a.OSM.Nodes) == 1 {
			names = []string{"node"}
			toks = append(toks, vXMLTok{Kind: 0, Name: "node", Model: a.OSM.Nodes[0]})
		} else if len(a.OSM.Ways) == 1 {
			names = []string{"way"}
			toks = append(toks, vXMLTok{Kind: 0, Name: "way", Model: a.OSM.Ways[0]})
		} else {
			names = []string{"relation"}
			toks = append(toks, vXMLTok{Kind: 0, Name: "relation", Model: a.OSM.Relations[0]})
		}
	} else {
		names = []string{"old", "new"}
		toks = append(toks, vXMLTok{Kind: 0, Name: "old", Model: a.Old}, vXMLTok{Kind: 0, Name: "new", Model: a.New})
	}
	vAssert(vSame(c04Names(evs, 1), names), "action-children-names")
	// decode what was written: the same children, with the type attribute anywhere in the list
	attrs := []xml.Attr{{Name: xml.Name{Local: "type"}, Value: string(typ)}}
	if vRange("extraAttrFirst", 0, 1) == 1 {
		attrs = append([]xml.Attr{{Name: xml.Name{Local: "id"}, Value: "7"}}, attrs...)
	}
	toks = append(toks, vXMLTok{Kind: 2, Name: "\n"}, vXMLTok{Kind: 1, Name: "action"})
	d := xml.NewDecoder(vXMLStream(append([]vXMLTok{}, toks...)))
	var back Action
	err = back.UnmarshalXML(d, xml.StartElement{Name: xml.Name{Local: "action"}, Attr: attrs})
	vAssert(err == nil, "unmarshal-no-error")
	vAssert(vSame(back, a), "action-round-trips")
}

// VerifH_C04_discussionAndDate: empty discussions are omitted; Date uses one layout on both sides.
func VerifH_C04_discussionAndDate() {
	n := vRange("comments", 0, 2)
	d := ChangesetDiscussion{}
	for i := 0; i < n; i++ {
		d.Comments = append(d.Comments, &ChangesetComment{User: "u", UserID: UserID(i + 1), Text: "t",
			Timestamp: time.Date(2012, 1, 2, 3, 4, 5+i, 123456789, time.UTC)})
	}
	buf := &bytes.Buffer{}
	enc := xml.NewEncoder(buf)
	err := enc.EncodeElement(d, xml.StartElement{Name: xml.Name{Local: "discussion"}})
	vReach("marshalled")
	vAssert(err == nil, "no-error")
	evs := vXMLLog(enc, buf, 1)
	if n == 0 {
		vAssert(len(evs) == 0, "empty-discussion-omitted")
	} else {
		vAssert(len(evs) == 1+n && evs[0].Name == "discussion", "discussion-element")
		for i := 1; i < len(evs); i++ {
			vAssert(evs[i].Name == "comment" && evs[i].Depth == 1, "comment-elements")
			// whatever writes the attributes (the reflection encoder, outside this check, or
			// hand-written code) has to write what the decoder reads back as the same value
			c := d.Comments[i-1]
			for _, a := range evs[i].Attrs {
				switch a.Name {
				case "date":
					vAssert(a.Value == c.Timestamp.Format(time.RFC3339Nano), "~comment-date-keeps-the-instant")
				case "uid":
					vAssert(a.Value == vDec(int64(c.UserID)), "~comment-uid")
				case "user":
					vAssert(a.Value == c.User, "~comment-user")
				}
			}
		}
	}
}

// c04Elem: one element of the given kind (0 bounds .. 6 user) for the round-trip documents.
func c04Elem(kind int, id int64) Object {
	switch kind {
	case 0:
		return &Bounds{MinLat: 1, MaxLat: 2, MinLon: float64(id), MaxLon: 40}
	case 1:
		return &Node{ID: NodeID(id), Version: 1, Visible: true}
	case 2:
		return &Way{ID: WayID(id), Version: 1, Visible: true}
	case 3:
		return &Relation{ID: RelationID(id), Version: 1, Visible: true}
	case 4:
		return &Changeset{ID: ChangesetID(id)}
	case 5:
		return &Note{ID: NoteID(id)}
	}
	return &User{ID: UserID(id)}
}

// VerifH_C04_roundTrip: marshal a container value with the real marshallers, feed what
// was written to the real decoding logic, get the same value back: OSM (header
// attributes, bounds, every element kind, in the order the marshaller writes them),
// Change (create/modify/delete blocks present or absent, with top-level bounds inside a
// block) and Diff (actions of every type). Containers travel as real token sequences;
// leaf elements as atomic tokens (their own text is encoding/xml reflection).
func VerifH_C04_roundTrip() {
	fill := func(name string) *OSM {
		o := &OSM{}
		max := vParam("maxElements", 2)
		if name != "osm" {
			max = vParam("maxBlockElements", 1)
		}
		n := vRange(name+"Elements", 0, max)
		for i := 0; i < n; i++ {
			e := c04Elem(vRange(name+"Kind", 0, 6), int64(i+1))
			if b, ok := e.(*Bounds); ok {
				o.Bounds = b
			} else {
				o.Append(e)
			}
		}
		return o
	}
	buf := &bytes.Buffer{}
	enc := xml.NewEncoder(buf)
	switch vRange("container", 0, 2) {
	case 0:
		o := fill("osm")
		o.Version, o.Generator = c04Opt("version"), c04Opt("generator")
		err := enc.Encode(o)
		vReach("marshalled")
		vAssert(err == nil, "no-error")
		got := &OSM{}
		err = xml.NewDecoder(vXMLStream(vXMLTokens(enc, buf))).Decode(got)
		vAssert(err == nil, "decode-no-error")
		vAssert(vSame(got, o), "osm-round-trips")
	case 1:
		c := &Change{Version: c04Opt("version")}
		if vRange("hasCreate", 0, 1) == 1 {
			c.Create = fill("create")
		}
		if vRange("hasModify", 0, 1) == 1 {
			c.Modify = fill("modify")
		}
		if vRange("hasDelete", 0, 1) == 1 {
			c.Delete = fill("delete")
		}
		err := enc.Encode(c)
		vReach("marshalled")
		vAssert(err == nil, "no-error")
		got := &Change{}
		err = xml.NewDecoder(vXMLStream(vXMLTokens(enc, buf))).Decode(got)
		vAssert(err == nil, "decode-no-error")
		// an empty block and an absent block are the same document
		norm := func(o *OSM) *OSM {
			if o == nil || vSame(o, &OSM{}) {
				return nil
			}
			return o
		}
		vAssert(vSame(norm(got.Create), norm(c.Create)) && vSame(norm(got.Modify), norm(c.Modify)) && vSame(norm(got.Delete), norm(c.Delete)) && got.Version == c.Version, "change-round-trips")
	case 2:
		d := &Diff{}
		n := vRange("actions", 0, 2)
		for i := 0; i < n; i++ {
			typ := []ActionType{ActionCreate, ActionModify, ActionDelete}[vRange("type", 0, 2)]
			a := Action{Type: typ}
			kind := 1 + vRange("kind", 0, 2)
			if typ == ActionCreate {
				a.OSM = &OSM{}
				a.OSM.Append(c04Elem(kind, int64(10*i+1)))
			} else {
				a.Old, a.New = &OSM{}, &OSM{}
				a.Old.Append(c04Elem(kind, int64(10*i+1)))
				a.New.Append(c04Elem(kind, int64(10*i+2)))
			}
			d.Actions = append(d.Actions, a)
		}
		err := enc.Encode(d)
		vReach("marshalled")
		vAssert(err == nil, "no-error")
		got := &Diff{}
		err = xml.NewDecoder(vXMLStream(vXMLTokens(enc, buf))).Decode(got)
		vAssert(err == nil, "decode-no-error")
		vAssert(vSame(got.Actions, d.Actions), "diff-round-trips")
	}
}
