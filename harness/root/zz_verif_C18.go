//go:build verif

package osm

// C18 harnesses: area classification of ways follows the polygon-features rules.

func c18Find(tags Tags, k string) (string, bool) {
	for _, t := range tags {
		if t.Key == k {
			return t.Value, true
		}
	}
	return "", false
}

// c18Oracle: the statement, written without branching on symbolic strings.
func c18Oracle(tags Tags) bool {
	area, _ := c18Find(tags, "area")
	rules := false
	for _, r := range c18Spec {
		v, ok := c18Find(tags, r.key)
		if !ok {
			continue
		}
		listed := false
		for _, lv := range r.values {
			listed = vOr(listed, v == lv)
		}
		pass := true
		switch r.kind {
		case "whitelist":
			pass = listed
		case "blacklist":
			pass = vNot(listed)
		}
		rules = vOr(rules, vAnd(vAnd(v != "", v != "no"), pass))
	}
	return vAnd(area != "no", vOr(area != "", rules))
}

func c18ClosedWay(tags Tags) *Way {
	return &Way{ID: 1, Nodes: WayNodes{{ID: 1}, {ID: 2}, {ID: 3}, {ID: 1}}, Tags: tags}
}

// lengths worth distinguishing for a rule key: every listed value's length, plus
// empty, "no"-length, and one length no listed value has.
func c18Lengths(r c18Rule) []int {
	seen := map[int]bool{0: true, 1: true, 2: true}
	out := []int{0, 1, 2}
	for _, v := range r.values {
		if !seen[len(v)] {
			seen[len(v)] = true
			out = append(out, len(v))
		}
	}
	for n := 3; n <= 16; n++ {
		if !seen[n] {
			out = append(out, n)
			break
		}
	}
	return out
}

func c18Value(name string, r c18Rule) string {
	ls := c18Lengths(r)
	return vStr(name, ls[vRange(name+"Len", 0, len(ls)-1)])
}

// VerifH_C18_singleKey: one rule key with an arbitrary value (every string of the
// chosen length), optionally an unrelated tag before it.
func VerifH_C18_singleKey() {
	r := c18Spec[vRange("rule", 0, len(c18Spec)-1)]
	v := c18Value("value", r)
	var tags Tags
	if vRange("unrelatedFirst", 0, 1) == 1 {
		tags = append(tags, Tag{Key: "name", Value: vStr("other", 2)})
	}
	tags = append(tags, Tag{Key: r.key, Value: v})
	w := c18ClosedWay(tags)
	got := w.Polygon()
	vReach("classified")
	vAssert(got == c18Oracle(tags), "classification-follows-rules")
}

// VerifH_C18_areaTag: the area tag classes (absent, empty, no, anything else) with
// and without a rule key, in both tag orders.
func VerifH_C18_areaTag() {
	area := vStr("area", vRange("areaLen", 0, 3))
	r := c18Spec[vRange("rule", 0, 2)]
	var tags Tags
	switch vRange("layout", 0, 3) {
	case 0:
		tags = Tags{{Key: "area", Value: area}}
	case 1:
		tags = Tags{{Key: "area", Value: area}, {Key: r.key, Value: c18Value("value", r)}}
	case 2:
		tags = Tags{{Key: r.key, Value: c18Value("value", r)}, {Key: "area", Value: area}}
	case 3:
		tags = Tags{{Key: r.key, Value: c18Value("value", r)}}
	}
	w := c18ClosedWay(tags)
	got := w.Polygon()
	vReach("classified")
	vAssert(got == c18Oracle(tags), "area-tag-precedence")
}

// VerifH_C18_pairs: two rule keys, arbitrary values, both tag orders give the same
// answer and it is the rules' answer.
func VerifH_C18_pairs() {
	listed := []int{}
	for i, r := range c18Spec {
		if r.kind != "all" {
			listed = append(listed, i)
		}
	}
	i1 := listed[vRange("rule1", 0, len(listed)-1)]
	second := append([]int{0}, listed...) // building (all) + the listed keys
	if vParam("allSecond", 0) == 0 {
		second = []int{0, listed[0], listed[1]}
	}
	i2 := second[vRange("rule2", 0, len(second)-1)]
	if i1 == i2 {
		return
	}
	r1, r2 := c18Spec[i1], c18Spec[i2]
	v1, v2 := c18Value("v1", r1), c18Value("v2", r2)
	a := Tags{{Key: r1.key, Value: v1}, {Key: r2.key, Value: v2}}
	b := Tags{{Key: r2.key, Value: v2}, {Key: r1.key, Value: v1}}
	ga, gb := c18ClosedWay(a).Polygon(), c18ClosedWay(b).Polygon()
	vReach("classified")
	vAssert(ga == c18Oracle(a), "pair-follows-rules")
	vAssert(ga == gb, "independent-of-tag-order")
}

// VerifH_C18_shape: closedness and the more-than-three-refs precondition.
func VerifH_C18_shape() {
	n := vRange("nodes", 0, 6)
	w := &Way{ID: 1, Tags: Tags{{Key: "building", Value: "yes"}}}
	for i := 0; i < n; i++ {
		w.Nodes = append(w.Nodes, WayNode{ID: NodeID(vInt64("ref"))})
	}
	got := w.Polygon()
	vReach("classified")
	want := false
	if n > 3 {
		want = w.Nodes[0].ID == w.Nodes[n-1].ID
	}
	vAssert(got == want, "closed-and-more-than-three-refs")
}

// VerifH_C18_relation: a relation is an area iff type is multipolygon or boundary.
func VerifH_C18_relation() {
	t := vStr("type", vRange("typeLen", 0, 13))
	tags := Tags{{Key: "type", Value: t}}
	if vRange("otherFirst", 0, 1) == 1 {
		tags = Tags{{Key: "name", Value: "x"}, {Key: "type", Value: t}}
	}
	r := &Relation{ID: 1, Tags: tags}
	vReach("classified")
	vAssert(r.Polygon() == vOr(t == "multipolygon", t == "boundary"), "relation-area-iff-multipolygon-or-boundary")
	r2 := &Relation{ID: 1}
	vAssert(!r2.Polygon(), "relation-without-type")
}
