//go:build verif

package osm

// Reference copy of the Overpass-turbo polygon-features rules (generated from /verif/spec/polygon_features.json).

type c18Rule struct {
	key, kind string
	values   []string
}

var c18Spec = []c18Rule{
	{key: "building", kind: "all", values: []string{}},
	{key: "highway", kind: "whitelist", values: []string{"services", "rest_area", "escape", "elevator"}},
	{key: "natural", kind: "blacklist", values: []string{"coastline", "cliff", "ridge", "arete", "tree_row"}},
	{key: "landuse", kind: "all", values: []string{}},
	{key: "waterway", kind: "whitelist", values: []string{"riverbank", "dock", "boatyard", "dam"}},
	{key: "amenity", kind: "all", values: []string{}},
	{key: "leisure", kind: "all", values: []string{}},
	{key: "barrier", kind: "whitelist", values: []string{"city_wall", "ditch", "hedge", "retaining_wall", "wall", "spikes"}},
	{key: "railway", kind: "whitelist", values: []string{"station", "turntable", "roundhouse", "platform"}},
	{key: "boundary", kind: "all", values: []string{}},
	{key: "man_made", kind: "blacklist", values: []string{"cutline", "embankment", "pipeline"}},
	{key: "power", kind: "whitelist", values: []string{"plant", "substation", "generator", "transformer"}},
	{key: "place", kind: "all", values: []string{}},
	{key: "shop", kind: "all", values: []string{}},
	{key: "aeroway", kind: "blacklist", values: []string{"taxiway"}},
	{key: "tourism", kind: "all", values: []string{}},
	{key: "historic", kind: "all", values: []string{}},
	{key: "public_transport", kind: "all", values: []string{}},
	{key: "office", kind: "all", values: []string{}},
	{key: "building:part", kind: "all", values: []string{}},
	{key: "military", kind: "all", values: []string{}},
	{key: "ruins", kind: "all", values: []string{}},
	{key: "area:highway", kind: "all", values: []string{}},
	{key: "craft", kind: "all", values: []string{}},
	{key: "golf", kind: "all", values: []string{}},
	{key: "indoor", kind: "all", values: []string{}},
}
