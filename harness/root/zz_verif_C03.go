//go:build verif

package osm

import "encoding/xml"

// VerifH_C03_actionUnmarshal: Action.UnmarshalXML reads the type attribute wherever
// it is, old/new/node/way/relation children land in Old/New/OSM, unknown children
// and noise are skipped.
func VerifH_C03_actionUnmarshal() {
	typ := []string{"create", "modify", "delete"}[vRange("type", 0, 2)]
	attrs := []xml.Attr{{Name: xml.Name{Local: "type"}, Value: typ}}
	switch vRange("attrLayout", 0, 2) {
	case 1:
		attrs = append([]xml.Attr{{Name: xml.Name{Local: "id"}, Value: "1"}}, attrs...)
	case 2:
		attrs = append(attrs, xml.Attr{Name: xml.Name{Local: "note"}, Value: "x"})
	}
	var toks []vXMLTok
	want := Action{Type: ActionType(typ)}
	noise := func() {
		switch vRange("noise", 0, 2) {
		case 1:
			toks = append(toks, vXMLTok{Kind: 2, Name: "\n "})
		case 2:
			toks = append(toks, vXMLTok{Kind: 0, Name: "unknown"}, vXMLTok{Kind: 1, Name: "unknown"})
		}
	}
	noise()
	if typ == "create" {
		switch vRange("kind", 0, 2) {
		case 0:
			n := &Node{ID: 1, Version: 1, Visible: true}
			toks = append(toks, vXMLTok{Kind: 0, Name: "node", Model: n})
			want.OSM = &OSM{Nodes: Nodes{n}}
		case 1:
			w := &Way{ID: 2, Version: 1, Visible: true}
			toks = append(toks, vXMLTok{Kind: 0, Name: "way", Model: w})
			want.OSM = &OSM{Ways: Ways{w}}
		case 2:
			r := &Relation{ID: 3, Version: 1, Visible: true}
			toks = append(toks, vXMLTok{Kind: 0, Name: "relation", Model: r})
			want.OSM = &OSM{Relations: Relations{r}}
		}
	} else {
		old := &OSM{Ways: Ways{{ID: 2, Version: 1, Visible: true}}}
		nw := &OSM{Ways: Ways{{ID: 2, Version: 2, Visible: typ == "modify"}}}
		toks = append(toks, vXMLTok{Kind: 0, Name: "old", Model: old})
		noise()
		toks = append(toks, vXMLTok{Kind: 0, Name: "new", Model: nw})
		want.Old, want.New = old, nw
	}
	toks = append(toks, vXMLTok{Kind: 1, Name: "action"})
	d := xml.NewDecoder(vXMLStream(toks))
	var got Action
	err := got.UnmarshalXML(d, xml.StartElement{Name: xml.Name{Local: "action"}, Attr: attrs})
	vReach("decoded")
	vAssert(err == nil, "no-error")
	vAssert(vSame(got, want), "action-decoded-faithfully")
}

// VerifH_C03_handWrittenChangeDecoder: repeated / interleaved create/modify/delete
// blocks accumulate. encoding/xml does this through struct tags (outside this check);
// if the tree defines a hand-written Change.UnmarshalXML it is executed here.
func VerifH_C03_handWrittenChangeDecoder() {
	var x interface{} = &Change{}
	u, ok := x.(xml.Unmarshaler)
	vReach("checked")
	if !ok {
		// decoding is left to encoding/xml's struct-tag reflection: nothing of osm's to execute
		vAssert(true, "no-hand-written-change-decoder")
		return
	}
	want := &Change{}
	var toks []vXMLTok
	nb := vRange("blocks", 1, 3)
	for i := 0; i < nb; i++ {
		blk := vRange("block", 0, 2)
		name := []string{"create", "modify", "delete"}[blk]
		o := &OSM{}
		switch vRange("content", 0, 2) {
		case 0:
			o.Nodes = Nodes{{ID: NodeID(i + 1), Version: 1}}
		case 1:
			o.Ways = Ways{{ID: WayID(i + 1), Version: 1}}
		case 2:
			o.Relations = Relations{{ID: RelationID(i + 1), Version: 1}}
		}
		toks = append(toks, vXMLTok{Kind: 0, Name: name, Model: o})
		var dst **OSM
		switch blk {
		case 0:
			dst = &want.Create
		case 1:
			dst = &want.Modify
		default:
			dst = &want.Delete
		}
		if *dst == nil {
			*dst = &OSM{}
		}
		(*dst).Nodes = append((*dst).Nodes, o.Nodes...)
		(*dst).Ways = append((*dst).Ways, o.Ways...)
		(*dst).Relations = append((*dst).Relations, o.Relations...)
	}
	toks = append(toks, vXMLTok{Kind: 1, Name: "osmChange"})
	d := xml.NewDecoder(vXMLStream(toks))
	err := u.UnmarshalXML(d, xml.StartElement{Name: xml.Name{Local: "osmChange"}})
	vAssert(err == nil, "no-error")
	got := x.(*Change)
	vAssert(vSame(got.Create, want.Create) && vSame(got.Modify, want.Modify) && vSame(got.Delete, want.Delete), "repeated-blocks-accumulate")
}
