//go:build verif

package osm

// C10 harnesses: packed object/element/feature ids.

func c10Dom(ref int64, v int) bool {
	return vAnd(vAnd(0 <= ref, ref < 1<<40), vAnd(0 <= v, v < 1<<16))
}

// kind index: 0 node, 1 way, 2 relation
func c10Elem(kind int, ref int64, v int) (ElementID, FeatureID, ObjectID, Type) {
	switch kind {
	case 0:
		return NodeID(ref).ElementID(v), NodeID(ref).FeatureID(), NodeID(ref).ObjectID(v), TypeNode
	case 1:
		return WayID(ref).ElementID(v), WayID(ref).FeatureID(), WayID(ref).ObjectID(v), TypeWay
	}
	return RelationID(ref).ElementID(v), RelationID(ref).FeatureID(), RelationID(ref).ObjectID(v), TypeRelation
}

// VerifH_C10_elementRT: decode(encode(kind,ref,v)) == (kind,ref,v) for the three
// element kinds, for element, feature and object ids, plus the conversions.
func VerifH_C10_elementRT() {
	kind := vRange("kind", 0, 2)
	ref, v := vInt64("ref"), vInt("v")
	vAssume(c10Dom(ref, v))
	eid, fid, oid, typ := c10Elem(kind, ref, v)
	vReach("encoded")
	vAssert(eid.Type() == typ, "element-type")
	vAssert(eid.Ref() == ref, "element-ref")
	vAssert(eid.Version() == v, "element-version")
	vAssert(fid.Type() == typ, "feature-type")
	vAssert(fid.Ref() == ref, "feature-ref")
	vAssert(oid.Type() == typ, "object-type")
	vAssert(oid.Ref() == ref, "object-ref")
	vAssert(oid.Version() == v, "object-version")
	// conversions commute
	vAssert(eid.FeatureID() == fid, "element-to-feature")
	vAssert(eid.ObjectID() == oid, "element-to-object")
	vAssert(fid.ElementID(v) == eid, "feature-to-element")
	vAssert(fid.ObjectID(v) == oid, "feature-to-object")
	vAssert(int64(oid) == int64(eid), "object-equals-element-bits")
	switch kind {
	case 0:
		vAssert(eid.NodeID() == NodeID(ref), "element-nodeid")
		vAssert(fid.NodeID() == NodeID(ref), "feature-nodeid")
	case 1:
		vAssert(eid.WayID() == WayID(ref), "element-wayid")
		vAssert(fid.WayID() == WayID(ref), "feature-wayid")
	case 2:
		vAssert(eid.RelationID() == RelationID(ref), "element-relationid")
		vAssert(fid.RelationID() == RelationID(ref), "feature-relationid")
	}
	// Type methods agree with the direct constructors
	f2, err := typ.FeatureID(ref)
	vAssert(err == nil, "type-featureid-noerr")
	vAssert(f2 == fid, "type-featureid")
	o2, err := typ.objectID(ref, v)
	vAssert(err == nil, "type-objectid-noerr")
	vAssert(o2 == oid, "type-objectid")
}

// VerifH_C10_objectRT: the four non-element object kinds.
func VerifH_C10_objectRT() {
	kind := vRange("kind", 0, 3)
	ref := vInt64("ref")
	vAssume(vAnd(0 <= ref, ref < 1<<40))
	var oid ObjectID
	var typ Type
	switch kind {
	case 0:
		oid, typ = ChangesetID(ref).ObjectID(), TypeChangeset
	case 1:
		oid, typ = NoteID(ref).ObjectID(), TypeNote
	case 2:
		oid, typ = UserID(ref).ObjectID(), TypeUser
	case 3:
		var b *Bounds
		oid, typ = b.ObjectID(), TypeBounds
		ref = 0
	}
	vReach("encoded")
	vAssert(oid.Type() == typ, "object-type")
	vAssert(oid.Ref() == ref, "object-ref")
	vAssert(oid.Version() == 0, "object-version-zero")
	o2, err := typ.objectID(ref, 0)
	vAssert(err == nil, "type-objectid-noerr")
	vAssert(o2 == oid, "type-objectid")
}

// c10Any builds an object id of any of the 7 kinds.
func c10Any(kind int, ref int64, v int) ObjectID {
	switch kind {
	case 0:
		var b *Bounds
		return b.ObjectID()
	case 1:
		return NodeID(ref).ObjectID(v)
	case 2:
		return WayID(ref).ObjectID(v)
	case 3:
		return RelationID(ref).ObjectID(v)
	case 4:
		return ChangesetID(ref).ObjectID()
	case 5:
		return NoteID(ref).ObjectID()
	}
	return UserID(ref).ObjectID()
}

// VerifH_C10_injective: distinct (kind,ref,version) give distinct ids, and for the
// element kinds integer order equals (kind, ref, version) order.
func VerifH_C10_injective() {
	k1, k2 := vRange("k1", 0, 6), vRange("k2", 0, 6)
	r1, v1 := vInt64("r1"), vInt("v1")
	r2, v2 := vInt64("r2"), vInt("v2")
	vAssume(c10Dom(r1, v1))
	vAssume(c10Dom(r2, v2))
	// kinds without versions / refs use the canonical zero
	if k1 == 0 {
		vAssume(r1 == 0)
	}
	if k2 == 0 {
		vAssume(r2 == 0)
	}
	if k1 == 0 || k1 >= 4 {
		vAssume(v1 == 0)
	}
	if k2 == 0 || k2 >= 4 {
		vAssume(v2 == 0)
	}
	a, b := c10Any(k1, r1, v1), c10Any(k2, r2, v2)
	vReach("pair")
	same := vAnd(k1 == k2, vAnd(r1 == r2, v1 == v2))
	vAssert((a == b) == same, "injective")
	vAssert(a >= 0, "non-negative")
	if k1 >= 1 && k1 <= 3 && k2 >= 1 && k2 <= 3 {
		lex := vOr(k1 < k2, vAnd(k1 == k2, vOr(r1 < r2, vAnd(r1 == r2, v1 < v2))))
		vAssert((a < b) == lex, "order-is-kind-ref-version")
		// feature ids: order by kind then ref
		_, f1, _, _ := c10Elem(k1-1, r1, v1)
		_, f2, _, _ := c10Elem(k2-1, r2, v2)
		flex := vOr(k1 < k2, vAnd(k1 == k2, r1 < r2))
		vAssert((f1 < f2) == flex, "feature-order-is-kind-ref")
		vAssert((f1 == f2) == vAnd(k1 == k2, r1 == r2), "feature-injective")
	}
}

// VerifH_C10_sortLess: the Less functions of the three sorts are integer order, so
// (with the order lemma above) sorted output is ordered by type, id, version.
func VerifH_C10_sortLess() {
	k1, k2 := vRange("k1", 0, 2), vRange("k2", 0, 2)
	r1, v1 := vInt64("r1"), vInt("v1")
	r2, v2 := vInt64("r2"), vInt("v2")
	vAssume(c10Dom(r1, v1))
	vAssume(c10Dom(r2, v2))
	e1, f1, _, _ := c10Elem(k1, r1, v1)
	e2, f2, _, _ := c10Elem(k2, r2, v2)
	lex := vOr(k1 < k2, vAnd(k1 == k2, vOr(r1 < r2, vAnd(r1 == r2, v1 < v2))))
	flex := vOr(k1 < k2, vAnd(k1 == k2, r1 < r2))
	vReach("pair")
	vAssert(elementIDsSort(ElementIDs{e1, e2}).Less(0, 1) == lex, "elementids-less")
	vAssert(featureIDsSort(FeatureIDs{f1, f2}).Less(0, 1) == flex, "featureids-less")
	mk := func(k int, r int64, v int) Element {
		switch k {
		case 0:
			return &Node{ID: NodeID(r), Version: v}
		case 1:
			return &Way{ID: WayID(r), Version: v}
		}
		return &Relation{ID: RelationID(r), Version: v}
	}
	es := Elements{mk(k1, r1, v1), mk(k2, r2, v2)}
	vAssert(elementsSort(es).Less(0, 1) == lex, "elements-less")
	// the real sort on two and three elements
	ids := ElementIDs{e2, e1}
	ids.Sort()
	vAssert(ids[0] <= ids[1], "elementids-sorted")
	fids := FeatureIDs{f2, f1}
	fids.Sort()
	vAssert(fids[0] <= fids[1], "featureids-sorted")
	es.Sort()
	vAssert(es[0].ElementID() <= es[1].ElementID(), "elements-sorted")
}

// c10Digits: k symbolic decimal digits (no leading zero unless k == 1) and their value.
func c10Digits(name string, k int) (string, int64) {
	s := vStr(name, k)
	var v int64
	for i := 0; i < k; i++ {
		vAssume(vAnd(s[i] >= '0', s[i] <= '9'))
		v = v*10 + int64(s[i]-'0')
	}
	if k > 1 {
		vAssume(s[0] != '0')
	}
	return s, v
}

// VerifH_C10_parse: text of the form kind/ref[:version|:-] with symbolic digits
// parses to exactly the packed id of (kind, ref, version); ref in [0,2^40), version in [0,2^16).
func VerifH_C10_parse() {
	kind := vRange("kind", 0, 2)
	name := []string{"node", "way", "relation"}[kind]
	nd := []int{1, 12}[vRange("refDigits", 0, 1)]
	if vParam("allRefLengths", 0) == 1 {
		nd = vRange("refLength", 1, 13)
	}
	refTxt, ref := c10Digits("refDigit", nd)
	vAssume(ref < 1<<40)
	vmode := vRange("versionMode", 0, 3) // 0 absent, 1 ":-", 2 one digit, 3 five digits
	s := name + "/" + refTxt
	ver := int64(0)
	switch vmode {
	case 1:
		s += ":-"
	case 2:
		t, v := c10Digits("verDigit", 1)
		s, ver = s+":"+t, v
	case 3:
		t, v := c10Digits("verDigit", 5)
		vAssume(v < 1<<16)
		s, ver = s+":"+t, v
	}
	wantE, wantF, wantO, _ := c10Elem(kind, ref, int(ver))
	e, err := ParseElementID(s)
	vReach("parsed")
	vAssert(err == nil, "element-id-text-accepted")
	vAssert(e == wantE, "element-id-text-parses-to-the-same-id")
	o, err := ParseObjectID(s)
	vAssert(err == nil, "object-id-text-accepted")
	vAssert(o == wantO, "object-id-text-parses-to-the-same-id")
	if vmode == 0 {
		f, err := ParseFeatureID(s)
		vAssert(err == nil, "feature-id-text-accepted")
		vAssert(f == wantF, "feature-id-text-parses-to-the-same-id")
	}
}

// VerifH_C10_string: String() is kind "/" decimal(ref) [":" decimal(version) | ":-"].
func VerifH_C10_string() {
	kind := vRange("kind", 0, 2)
	name := []string{"node", "way", "relation"}[kind]
	ref, v := vInt64("ref"), vInt("v")
	vAssume(c10Dom(ref, v))
	e, f, o, _ := c10Elem(kind, ref, v)
	vReach("formatted")
	vAssert(f.String() == name+"/"+vDec(ref), "feature-id-text")
	if vRange("versionZero", 0, 1) == 1 {
		vAssume(v == 0)
		vAssert(e.String() == name+"/"+vDec(ref)+":-", "element-id-text-without-version")
		vAssert(o.String() == name+"/"+vDec(ref)+":-", "object-id-text-without-version")
	} else {
		vAssume(v != 0)
		vAssert(e.String() == name+"/"+vDec(ref)+":"+vDec(int64(v)), "element-id-text")
		vAssert(o.String() == name+"/"+vDec(ref)+":"+vDec(int64(v)), "object-id-text")
	}
}

// VerifH_C10_reject: text without the kind/ref[:version] shape or with an unknown kind
// is an error. (Signed or zero-padded numbers are accepted by strconv and denote
// references outside the stated domain; they are outside this claim.)
func VerifH_C10_reject() {
	var s string
	objectKind := false
	notNum := func(b byte) bool { // not a digit and not a sign
		return vAnd(vOr(b < '0', b > '9'), vAnd(b != '+', b != '-'))
	}
	switch vRange("shape", 0, 9) {
	case 0: // unknown kind, otherwise well formed
		d, _ := c10Digits("d", 1)
		kt := vRange("kindText", 0, 4)
		objectKind = kt == 3 // "changeset" is a kind of object id (not of element / feature ids)
		s = []string{"area", "Node", "nodes", "changeset", ""}[kt] + "/" + d
	case 1: // no slash
		x := vStr("x", 2)
		vAssume(vAnd(x[0] != '/', x[1] != '/'))
		s = "node" + x
	case 2: // too many parts
		s = "node/1/2"
	case 3: // reference is not a number
		x := vStr("x", 2)
		vAssume(vOr(notNum(x[0]), vOr(x[1] < '0', x[1] > '9')))
		vAssume(vAnd(x[0] != '/', x[1] != '/'))
		vAssume(vAnd(x[0] != ':', x[1] != ':'))
		s = "way/" + x + ":1"
	case 4: // version is neither a number nor '-'
		x := vStr("x", 1)
		vAssume(vAnd(notNum(x[0]), vAnd(x[0] != '/', x[0] != ':')))
		s = "relation/12:" + x
	case 5:
		s = ""
	case 6: // too many version parts
		s = "node/1:2:3"
	case 7: // empty reference
		s = "node/"
	case 8: // colon without a version
		s = []string{"node", "way", "relation"}[vRange("kindText", 0, 2)] + "/1:"
	case 9: // empty reference before a version
		s = "way/:1"
	}
	_, err := ParseElementID(s)
	vReach("parsed")
	vAssert(err != nil, "malformed-element-id-text-rejected")
	_, err = ParseObjectID(s)
	if objectKind {
		vAssert(err == nil, "changeset-is-an-object-kind")
	} else {
		vAssert(err != nil, "malformed-object-id-text-rejected")
	}
	if vRange("feature", 0, 1) == 1 {
		_, err = ParseFeatureID(s)
		vAssert(err != nil, "malformed-feature-id-text-rejected")
	}
}
