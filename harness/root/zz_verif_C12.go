//go:build verif

package osm

import "time"

// VerifH_C12_sortTiesReal: the real sort.Sort on an update list as annotation builds
// it for two children with seven versions each where consecutive versions share a
// one-second timestamp. The child-location map may be iterated in either order
// (which child's updates are appended first). Versions are symbolic (ascending per
// child, as histories are). Result must be ordered by index, time, version.
func VerifH_C12_sortTiesReal() {
	order := vRange("mapOrder", 0, 1)
	base := vInt64("base")
	vAssume(vAnd(base >= 0, base < 1<<40))
	var us Updates
	for k := 0; k < 2; k++ {
		idx := k
		if order == 1 {
			idx = 1 - k
		}
		prev := 0
		for v := 0; v < 7; v++ {
			ver := vInt("version")
			vAssume(vAnd(ver > prev, ver < 1<<16))
			prev = ver
			us = append(us, Update{Index: idx, Version: ver, Timestamp: time.Unix(base+int64(v/2), 0)})
		}
	}
	us.SortByIndex()
	vReach("sorted")
	ok := true
	for i := 1; i < len(us); i++ {
		a, b := us[i-1], us[i]
		if a.Index > b.Index {
			ok = false
		}
		if a.Index == b.Index && a.Timestamp.Equal(b.Timestamp) {
			ok = vAnd(ok, a.Version < b.Version)
		}
		if a.Index == b.Index && a.Timestamp.After(b.Timestamp) {
			ok = false
		}
	}
	vAssert(ok, "ordered-by-index-time-version")
}

// VerifH_C12_sortContract: SortByIndex under the contract of sort.Sort (any
// permutation consistent with Less): the order is fully determined by
// (index, time, version) when those triples are distinct.
func VerifH_C12_sortContract() {
	n := vRange("n", 2, vParam("maxN", 3))
	var us Updates
	secs := make([]int64, n)
	for i := 0; i < n; i++ {
		secs[i] = vInt64("sec")
		vAssume(vAnd(secs[i] >= 0, secs[i] < 1<<40))
		ts := time.Unix(secs[i], 0)
		if vRange("utc", 0, 1) == 1 {
			ts = ts.UTC() // same instant, other location
		}
		us = append(us, Update{Index: vRange("index", 0, 1), Version: vInt("version"), Timestamp: ts, ChangesetID: ChangesetID(i)})
	}
	// distinct (index, time, version) triples
	for i := 0; i < n; i++ {
		for j := i + 1; j < n; j++ {
			vAssume(vNot(vAnd(us[i].Index == us[j].Index, vAnd(secs[i] == secs[j], us[i].Version == us[j].Version))))
		}
	}
	cs2sec := func(u Update) int64 { return secs[int(u.ChangesetID)] }
	us.SortByIndex()
	vReach("sorted")
	for i := 1; i < len(us); i++ {
		a, b := us[i-1], us[i]
		sa, sb := cs2sec(a), cs2sec(b)
		lex := vOr(a.Index < b.Index, vAnd(a.Index == b.Index, vOr(sa < sb, vAnd(sa == sb, a.Version < b.Version))))
		vAssert(lex, "ordered-by-index-time-version")
	}
}
