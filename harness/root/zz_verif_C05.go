//go:build verif

package osm

import (
	"encoding/json"
	"errors"
	"time"
)

// The JSON codec is the environment of the hand-written (un)marshalling logic: the
// harness installs its own codec through CustomJSONMarshaler/CustomJSONUnmarshaler
// (a configuration the property names). Documents are opaque byte tokens that the
// codec maps to model values.

type c05Top = struct {
	Version     interface{}        `json:"version"`
	Generator   string             `json:"generator"`
	Copyright   string             `json:"copyright"`
	Attribution string             `json:"attribution"`
	License     string             `json:"license"`
	Elements    []nocopyRawMessage `json:"elements"`
}

type c05Elem struct {
	typ   string // "" => no type key
	model interface{}
}

type c05Codec struct {
	top      c05Top
	elems    []c05Elem
	unknown  bool // a target type the harness does not know was passed
	marshals []interface{}
	ids      []int64
}

var c05Bad = errors.New("verif: codec failure")

func c05Token(i int) []byte { return []byte{'E', byte('0' + i)} }

func (c *c05Codec) Unmarshal(data []byte, v interface{}) error {
	if len(data) == 3 && data[0] == 'D' { // the document
		t, ok := v.(*c05Top)
		if !ok {
			c.unknown = true
			return c05Bad
		}
		*t = c.top
		return nil
	}
	if len(data) >= 2 && (data[0] == 'A' || data[0] == '[') { // an id array (token or JSON text)
		a, ok := v.(*[]int64)
		if !ok {
			c.unknown = true
			return c05Bad
		}
		*a = append([]int64(nil), c.ids...)
		return nil
	}
	if len(data) != 2 || data[0] != 'E' {
		c.unknown = true
		return c05Bad
	}
	e := c.elems[int(data[1]-'0')]
	switch t := v.(type) {
	case *typeStruct:
		t.Type = e.typ
	case *Node:
		*t = *e.model.(*Node)
	case *Way:
		*t = *e.model.(*Way)
	case *Relation:
		*t = *e.model.(*Relation)
	case *Changeset:
		*t = *e.model.(*Changeset)
	case *Note:
		*t = *e.model.(*Note)
	case *User:
		*t = *e.model.(*User)
	default:
		c.unknown = true
		return c05Bad
	}
	return nil
}

func (c *c05Codec) Marshal(v interface{}) ([]byte, error) {
	c.marshals = append(c.marshals, v)
	return []byte{'M', byte('0' + len(c.marshals))}, nil
}

// VerifH_C05_unmarshal: OSM.UnmarshalJSON dispatches elements by type, keeps order,
// copies the header, accepts version as string or number or absent.
func VerifH_C05_unmarshal() {
	c := &c05Codec{}
	CustomJSONUnmarshaler = c
	defer func() { CustomJSONUnmarshaler = nil }()
	wantVersion := ""
	switch vRange("version", 0, 4) {
	case 1:
		c.top.Version = "0.6"
		wantVersion = "0.6"
	case 2:
		c.top.Version = float64(0.6)
		wantVersion = "0.6"
	case 3: // a codec configured to keep numbers as text (json.Number / UseNumber)
		c.top.Version = json.Number("0.6")
		wantVersion = "0.6"
	case 4: // a codec that decodes integral numbers as integers
		c.top.Version = int64(1)
		wantVersion = "1"
	}
	if vRange("header", 0, 1) == 1 {
		c.top.Generator, c.top.Copyright, c.top.Attribution, c.top.License = "g", "c", "a", "l"
	}
	want := &OSM{Version: wantVersion, Generator: c.top.Generator, Copyright: c.top.Copyright, Attribution: c.top.Attribution, License: c.top.License}
	n := vRange("elements", 0, vParam("maxElements", 3))
	badAt := -1
	for i := 0; i < n; i++ {
		kind := vRange("kind", 0, 7)
		var e c05Elem
		switch kind {
		case 0:
			m := &Node{ID: NodeID(vInt64("id")), Version: 1}
			e = c05Elem{"node", m}
			if badAt < 0 {
				want.Nodes = append(want.Nodes, m)
			}
		case 1:
			m := &Way{ID: WayID(vInt64("id")), Version: 1}
			e = c05Elem{"way", m}
			if badAt < 0 {
				want.Ways = append(want.Ways, m)
			}
		case 2:
			m := &Relation{ID: RelationID(vInt64("id")), Version: 1}
			e = c05Elem{"relation", m}
			if badAt < 0 {
				want.Relations = append(want.Relations, m)
			}
		case 3:
			m := &Changeset{ID: ChangesetID(vInt64("id"))}
			e = c05Elem{"changeset", m}
			if badAt < 0 {
				want.Changesets = append(want.Changesets, m)
			}
		case 4:
			m := &Note{ID: NoteID(vInt64("id"))}
			e = c05Elem{"note", m}
			if badAt < 0 {
				want.Notes = append(want.Notes, m)
			}
		case 5:
			m := &User{ID: UserID(vInt64("id"))}
			e = c05Elem{"user", m}
			if badAt < 0 {
				want.Users = append(want.Users, m)
			}
		case 6:
			e = c05Elem{"", &Node{ID: 99}} // element without a type key
			if badAt < 0 {
				badAt = i
			}
		case 7:
			e = c05Elem{"area", &Node{ID: 98}} // unknown type
			if badAt < 0 {
				badAt = i
			}
		}
		c.elems = append(c.elems, e)
		c.top.Elements = append(c.top.Elements, nocopyRawMessage(c05Token(i)))
	}
	got := &OSM{}
	err := got.UnmarshalJSON([]byte("DOC"))
	vReach("decoded")
	vAssert(!c.unknown, "codec-called-with-known-targets")
	if badAt >= 0 {
		vAssert(err != nil, "unknown-or-missing-type-is-an-error")
		return
	}
	vAssert(err == nil, "no-error")
	vAssert(got.Version == want.Version, "absent-version-stays-empty-number-or-string-kept")
	vAssert(vSame(got, want), "elements-dispatched-by-type-in-order-and-header-copied")
}

// VerifH_C05_marshal: OSM.MarshalJSON hands the codec an elements array in which
// every element is one of the typed element kinds (each carries its osmjson type).
func VerifH_C05_marshal() {
	c := &c05Codec{}
	CustomJSONMarshaler = c
	defer func() { CustomJSONMarshaler = nil }()
	o, _ := c04Inner("osm")
	o.Version, o.Generator = c04Opt("version"), c04Opt("generator")
	_, err := o.MarshalJSON()
	vReach("marshalled")
	vAssert(err == nil && len(c.marshals) == 1, "one-codec-call")
	if len(c.marshals) != 1 {
		return
	}
	s, ok := c.marshals[0].(struct {
		Version     string  `json:"version,omitempty"`
		Generator   string  `json:"generator,omitempty"`
		Copyright   string  `json:"copyright,omitempty"`
		Attribution string  `json:"attribution,omitempty"`
		License     string  `json:"license,omitempty"`
		Elements    Objects `json:"elements"`
	})
	vAssert(ok, "osmjson-top-level-shape")
	if !ok {
		return
	}
	vAssert(s.Version == o.Version && s.Generator == o.Generator, "header-copied")
	vAssert(s.Elements != nil || true, "elements-present")
	count := 0
	for _, e := range s.Elements {
		typed := false
		switch e.(type) {
		case *Node, *Way, *Relation, *Changeset, *Note, *User:
			typed = true
		}
		if _, isBounds := e.(*Bounds); isBounds {
			vAssert(false, "every-element-carries-its-type/bounds-element-has-no-type")
		} else {
			vAssert(typed, "every-element-carries-its-type")
		}
		count++
	}
	n := len(o.Nodes) + len(o.Ways) + len(o.Relations) + len(o.Changesets) + len(o.Notes) + len(o.Users)
	if o.Bounds == nil {
		vAssert(count == n, "all-elements-flattened-into-elements")
	}
}

// VerifH_C05_helpers: the type shims, members-never-null, way nodes as id array, zero date as null.
func VerifH_C05_helpers() {
	c := &c05Codec{}
	CustomJSONMarshaler = c
	CustomJSONUnmarshaler = c
	defer func() { CustomJSONMarshaler, CustomJSONUnmarshaler = nil, nil }()
	lit := func(b []byte, err error) string { return string(b) }
	vAssert(lit(xmlNameJSONTypeNode{}.MarshalJSON()) == `"node"`, "node-type-literal")
	vAssert(lit(xmlNameJSONTypeWay{}.MarshalJSON()) == `"way"`, "way-type-literal")
	vAssert(lit(xmlNameJSONTypeRel{}.MarshalJSON()) == `"relation"`, "relation-type-literal")
	vAssert(lit(xmlNameJSONTypeCS{}.MarshalJSON()) == `"changeset"`, "changeset-type-literal")
	vAssert(lit(xmlNameJSONTypeUser{}.MarshalJSON()) == `"user"`, "user-type-literal")
	vAssert(lit(xmlNameJSONTypeNote{}.MarshalJSON()) == `"note"`, "note-type-literal")
	// members never null
	b, err := Members(nil).MarshalJSON()
	vAssert(err == nil && string(b) == "[]", "nil-members-marshal-to-empty-array")
	b, err = Members{}.MarshalJSON()
	vAssert(err == nil && string(b) == "[]", "empty-members-marshal-to-empty-array")
	ms := Members{{Type: TypeNode, Ref: vInt64("ref"), Role: "r"}}
	_, err = ms.MarshalJSON()
	vAssert(err == nil && len(c.marshals) == 1 && vSame(c.marshals[0], []Member(ms)), "members-marshalled-as-array")
	// way nodes <-> id array
	n := vRange("wayNodes", 0, 3)
	var wn WayNodes
	var ids []int64
	for i := 0; i < n; i++ {
		id := vInt64("nodeID")
		wn = append(wn, WayNode{ID: NodeID(id), Version: 3, Lat: 1})
		ids = append(ids, id)
	}
	c.marshals = nil
	_, err = wn.MarshalJSON()
	vAssert(err == nil && len(c.marshals) == 1, "waynodes-codec-call")
	if len(c.marshals) == 1 {
		a, ok := c.marshals[0].([]int64)
		vAssert(ok && a != nil && vSame(a, ids), "way-nodes-marshal-as-id-array-in-order")
	}
	c.ids = ids
	var back WayNodes
	err = back.UnmarshalJSON([]byte("A0"))
	vAssert(err == nil && len(back) == n, "waynodes-unmarshal")
	for i := range back {
		vAssert(back[i].ID == NodeID(ids[i]), "way-node-ids-preserved-in-order")
	}
	// the same through real JSON text (a hand-written array parser, if any, sees it)
	pick := []int64{-1, 5, 12, -40}
	var tids []int64
	text := "["
	for i := 0; i < vRange("textIDs", 0, 3); i++ {
		id := pick[vRange("textID", 0, 3)]
		if i > 0 {
			text += ","
		}
		text += itoa64(id)
		tids = append(tids, id)
	}
	text += "]"
	c.ids = tids
	var fromText WayNodes
	err = fromText.UnmarshalJSON([]byte(text))
	vAssert(err == nil && len(fromText) == len(tids), "waynodes-unmarshal-from-text")
	for i := range fromText {
		if i < len(tids) {
			vAssert(fromText[i].ID == NodeID(tids[i]), "way-node-ids-from-text-preserved")
		}
	}
	// zero date is null
	b, err = Date{}.MarshalJSON()
	vAssert(err == nil && string(b) == "null", "zero-date-is-null")
	c.marshals = nil
	d := Date{time.Unix(1500000000, 0)}
	_, err = d.MarshalJSON()
	vAssert(err == nil && len(c.marshals) == 1, "non-zero-date-goes-through-the-codec")
	// tags as an object
	c.marshals = nil
	ts := Tags{{Key: "a", Value: "1"}, {Key: "b", Value: "2"}}
	_, err = ts.MarshalJSON()
	vAssert(err == nil && len(c.marshals) == 1, "tags-codec-call")
	if len(c.marshals) == 1 {
		m, ok := c.marshals[0].(map[string]string)
		vAssert(ok && len(m) == 2 && m["a"] == "1" && m["b"] == "2", "tags-marshal-as-object")
	}
	vReach("helpers")
}

func itoa64(v int64) string {
	if v == 0 {
		return "0"
	}
	neg := v < 0
	if neg {
		v = -v
	}
	s := ""
	for v > 0 {
		s = string(rune('0'+v%10)) + s
		v /= 10
	}
	if neg {
		s = "-" + s
	}
	return s
}

// VerifH_C05_tagsDecode: Tags.UnmarshalJSON (which goes to encoding/json directly in
// every configuration): a document yields exactly its own tags, also when an earlier
// document was rejected half-way (a non-string tag value) or decoded before it.
func VerifH_C05_tagsDecode() {
	switch vRange("before", 0, 2) {
	case 1: // a rejected document first
		var t0 Tags
		err := t0.UnmarshalJSON([]byte(`{"name":"Main St","lanes":2}`))
		vAssert(err != nil, "non-string-tag-value-rejected")
	case 2: // an accepted document first
		var t0 Tags
		err := t0.UnmarshalJSON([]byte(`{"name":"Main St","lanes":"2"}`))
		vAssert(err == nil && len(t0) == 2, "first-document-decoded")
	}
	var t Tags
	err := t.UnmarshalJSON([]byte(`{"highway":"bus_stop","ref":"7"}`))
	vReach("decoded")
	vAssert(err == nil, "no-error")
	t.SortByKeyValue()
	vAssert(vSame(t, Tags{{Key: "highway", Value: "bus_stop"}, {Key: "ref", Value: "7"}}), "exactly-the-tags-of-the-document")
	var e Tags
	vAssert(e.UnmarshalJSON([]byte(`{}`)) == nil && len(e) == 0, "empty-object-gives-no-tags")
}
