//go:build verif

package osm

import (
	"time"

	"github.com/paulmach/orb"
)

// C15 harnesses: applying updates.

const c15TimeMax = int64(1) << 40

type c15Upd struct {
	sec int64
	u   Update
}

func c15Time(name string) (int64, time.Time) {
	s := vInt64(name)
	vAssume(vAnd(0 <= s, s < c15TimeMax))
	return s, time.Unix(s, 0)
}

func c15Updates(m int, withReverse bool) []c15Upd {
	us := make([]c15Upd, m)
	for j := 0; j < m; j++ {
		s, ts := c15Time("uts")
		us[j] = c15Upd{sec: s, u: Update{
			Index:       vInt("uidx"),
			Version:     vInt("uver"),
			Timestamp:   ts,
			ChangesetID: ChangesetID(vInt64("ucs")),
			Lat:         vF64("ulat"),
			Lon:         vF64("ulon"),
		}}
		if withReverse {
			us[j].u.Reverse = vBool("urev")
		}
		vAssume(us[j].u.Index >= 0) // "beyond the child list": negative indexes are outside the statement
	}
	return us
}

func c15Nodes(n int) WayNodes {
	ns := make(WayNodes, n)
	for i := range ns {
		ns[i] = WayNode{ID: NodeID(vInt64("nid")), Version: vInt("nver"), ChangesetID: ChangesetID(vInt64("ncs")), Lat: vF64("nlat"), Lon: vF64("nlon")}
	}
	return ns
}

// VerifH_C15_wayApply: exact application on ways.
func VerifH_C15_wayApply() {
	n := vRange("n", 0, vParam("maxNodes", 2))
	m := vRange("m", 0, vParam("maxUpdates", 3))
	nodes := c15Nodes(n)
	us := c15Updates(m, false)
	tsec, t := c15Time("t")
	w := &Way{ID: 1, Nodes: append(WayNodes{}, nodes...)}
	for _, x := range us {
		w.Updates = append(w.Updates, x.u)
	}
	given := w.Updates // the caller's list (its backing array may be shared with copies of the way)
	err := w.ApplyUpdatesUpTo(t)
	vReach("applied")
	vAssert(vSame(given, Updates(usList(us))), "callers-update-list-not-rewritten")

	// first applicable update with an index beyond the list
	bad := -1
	for j := m - 1; j >= 0; j-- {
		if vAnd(us[j].sec <= tsec, us[j].u.Index >= n) {
			bad = j
		}
	}
	if bad >= 0 {
		e, ok := err.(*UpdateIndexOutOfRangeError)
		vAssert(ok, "index-error-type")
		if ok {
			vAssert(e.Index == us[bad].u.Index, "index-error-value")
		}
		vAssert(len(w.Nodes) == n, "no-growth-on-error")
		return
	}
	vAssert(err == nil, "no-error")
	vAssert(len(w.Nodes) == n, "same-length")
	for i := 0; i < n; i++ {
		exp := nodes[i]
		for j := 0; j < m; j++ {
			if vAnd(us[j].sec <= tsec, us[j].u.Index == i) {
				exp.Version, exp.ChangesetID, exp.Lat, exp.Lon = us[j].u.Version, us[j].u.ChangesetID, us[j].u.Lat, us[j].u.Lon
			}
		}
		vAssert(vSame(w.Nodes[i], exp), "node-state")
	}
	// pending = later updates in original order
	var pend Updates
	for j := 0; j < m; j++ {
		if us[j].sec > tsec {
			pend = append(pend, us[j].u)
		}
	}
	vAssert(vSame(w.Updates, pend), "pending-order")
	vAssert(vSame(Updates(usList(us)).UpTo(t), applied(us, tsec)), "upto-subset")
}

func usList(us []c15Upd) []Update {
	r := make([]Update, len(us))
	for i := range us {
		r[i] = us[i].u
	}
	return r
}

func applied(us []c15Upd, tsec int64) Updates {
	var r Updates
	for j := range us {
		if us[j].sec <= tsec {
			r = append(r, us[j].u)
		}
	}
	return r
}

// VerifH_C15_relApply: exact application on relations (orientation flip for Reverse).
func VerifH_C15_relApply() {
	n := vRange("n", 0, vParam("maxNodes", 2))
	m := vRange("m", 0, vParam("maxUpdates", 3))
	ms := make(Members, n)
	for i := range ms {
		ms[i] = Member{Type: TypeWay, Ref: vInt64("ref"), Version: vInt("mver"), ChangesetID: ChangesetID(vInt64("mcs")),
			Lat: vF64("mlat"), Lon: vF64("mlon"), Orientation: orb.Orientation(int8(vRange("orient", -1, 1)))}
	}
	us := c15Updates(m, true)
	tsec, t := c15Time("t")
	r := &Relation{ID: 1, Members: append(Members{}, ms...)}
	for _, x := range us {
		r.Updates = append(r.Updates, x.u)
	}
	err := r.ApplyUpdatesUpTo(t)
	vReach("applied")
	bad := -1
	for j := m - 1; j >= 0; j-- {
		if vAnd(us[j].sec <= tsec, us[j].u.Index >= n) {
			bad = j
		}
	}
	if bad >= 0 {
		e, ok := err.(*UpdateIndexOutOfRangeError)
		vAssert(ok, "index-error-type")
		if ok {
			vAssert(e.Index == us[bad].u.Index, "index-error-value")
		}
		return
	}
	vAssert(err == nil, "no-error")
	vAssert(len(r.Members) == n, "same-length")
	for i := 0; i < n; i++ {
		exp := ms[i]
		for j := 0; j < m; j++ {
			if vAnd(us[j].sec <= tsec, us[j].u.Index == i) {
				exp.Version, exp.ChangesetID, exp.Lat, exp.Lon = us[j].u.Version, us[j].u.ChangesetID, us[j].u.Lat, us[j].u.Lon
				if us[j].u.Reverse {
					exp.Orientation = -exp.Orientation
				}
			}
		}
		vAssert(vSame(r.Members[i], exp), "member-state")
	}
	var pend Updates
	for j := 0; j < m; j++ {
		if us[j].sec > tsec {
			pend = append(pend, us[j].u)
		}
	}
	vAssert(vSame(r.Updates, pend), "pending-order")
}

// VerifH_C15_compose: apply(t1); apply(t2) == apply(t2) when each child's updates
// are in time order.
func VerifH_C15_compose() {
	n := vRange("n", 1, vParam("maxNodes", 2))
	m := vRange("m", 0, vParam("maxUpdates", 3))
	nodes := c15Nodes(n)
	us := c15Updates(m, false)
	for j := 0; j < m; j++ {
		vAssume(us[j].u.Index < n)
		for k := j + 1; k < m; k++ {
			vAssume(vImplies(us[j].u.Index == us[k].u.Index, us[j].sec <= us[k].sec))
		}
	}
	s1, t1 := c15Time("t1")
	s2, t2 := c15Time("t2")
	vAssume(s1 <= s2)
	a := &Way{ID: 1, Nodes: append(WayNodes{}, nodes...), Updates: usList(us)}
	b := &Way{ID: 1, Nodes: append(WayNodes{}, nodes...), Updates: usList(us)}
	e1 := a.ApplyUpdatesUpTo(t1)
	e2 := a.ApplyUpdatesUpTo(t2)
	e3 := b.ApplyUpdatesUpTo(t2)
	vReach("composed")
	vAssert(e1 == nil && e2 == nil && e3 == nil, "no-error")
	vAssert(vSame(a.Nodes, b.Nodes), "compose-nodes")
	vAssert(vSame(a.Updates, b.Updates), "compose-pending")
}

// VerifH_C15_lineStringAt: geometry-at-time equals apply-on-copy then LineString, for
// fully annotated ways and any stored order of the update list.
func VerifH_C15_lineStringAt() {
	n := vRange("n", 1, vParam("maxNodes", 2))
	m := vRange("m", 0, vParam("maxUpdates", 3))
	nodes := c15Nodes(n)
	for i := range nodes {
		vAssume(nodes[i].Version >= 1) // fully annotated
	}
	us := c15Updates(m, false)
	for j := 0; j < m; j++ {
		vAssume(vAnd(us[j].u.Index < n, us[j].u.Version >= 1))
	}
	_, t := c15Time("t")
	_, wts := c15Time("wayTimestamp")
	w := &Way{ID: 1, Timestamp: wts, Nodes: append(WayNodes{}, nodes...), Updates: usList(us)}
	if vRange("committed", 0, 1) == 1 {
		_, wc := c15Time("wayCommitted")
		w.Committed = &wc
	}
	got := w.LineStringAt(t)
	cp := &Way{ID: 1, Timestamp: wts, Committed: w.Committed, Nodes: append(WayNodes{}, nodes...), Updates: usList(us)}
	err := cp.ApplyUpdatesUpTo(t)
	want := cp.LineString()
	vReach("computed")
	vAssert(err == nil, "no-error")
	vAssert(vSame(got, want), "linestring-at-equals-apply")
	vAssert(vSame(w.Nodes, nodes), "query-does-not-modify")
}
