//go:build verif

package replication

import (
	"bytes"
	"context"
	"fmt"
	"io"
	"net/http"
	"strings"
	"time"
)

const c19Base = int64(1500000000)

// VerifH_C19_search: searchTimestamp/findBound/findInRange over a symbolic
// replication directory: sequence numbers 1..R, any pattern of missing state files
// (404), strictly increasing symbolic timestamps, symbolic query time.
func VerifH_C19_search() {
	R := vRange("R", 1, vParam("maxR", 6))
	present := make([]bool, R+1)
	ts := make([]int64, R+1)
	missing := 0
	for i := 1; i <= R; i++ {
		present[i] = true
		if i < R && vRange("present", 0, 1) == 0 {
			present[i] = false
			missing++
		}
		ts[i] = vInt64("ts")
		vAssume(vAnd(ts[i] >= c19Base, ts[i] < c19Base+(1<<30)))
		if i > 1 {
			vAssume(ts[i-1] < ts[i])
		}
	}
	q := vInt64("query")
	vAssume(vAnd(q >= c19Base-10, q < c19Base+(1<<30)+10))
	calls := 0
	// deliberately loose request budget: 4*(ceil(log2 R)+1)^2 + 2*missing + 8
	lg := 0
	for (1 << uint(lg)) < R {
		lg++
	}
	budget := 4*(lg+1)*(lg+1) + 2*missing + 8
	st := func(n int) *State { return &State{SeqNum: uint64(n), Timestamp: time.Unix(ts[n], 0)} }
	s := &stater{
		Min:     1,
		Current: func(context.Context) (*State, error) { return st(R), nil },
		State: func(_ context.Context, n uint64) (*State, error) {
			calls++
			vAssert(calls <= budget, "terminates-within-request-budget")
			if calls > budget {
				vAssume(false)
			}
			if n < 1 || n > uint64(R) || !present[n] {
				return nil, &UnexpectedStatusCodeError{Code: http.StatusNotFound}
			}
			return st(int(n)), nil
		},
	}
	got, err := searchTimestamp(context.Background(), s, time.Unix(q, 0))
	vReach("returned")
	vAssert(err == nil && got != nil, "no-error")
	if err != nil || got == nil {
		return
	}
	// expected: first present state written at or after q, or the newest
	want := R
	for i := R; i >= 1; i-- {
		if present[i] && ts[i] >= q {
			want = i
		}
	}
	if !present[1] {
		// the oldest state file is missing: the lower bound is found by binary probing (findBound)
		vAssert(got.SeqNum == uint64(want), "first-state-at-or-after-timestamp/oldest-file-missing")
	} else {
		vAssert(got.SeqNum == uint64(want), "first-state-at-or-after-timestamp")
	}
}

// VerifH_C19_searchErrors: a non-404 failure of a state request is returned.
func VerifH_C19_searchErrors() {
	R := vRange("R", 2, 5)
	failAt := vRange("failAt", 1, R-1)
	ts := make([]int64, R+1)
	for i := 1; i <= R; i++ {
		ts[i] = c19Base + int64(i)*60
	}
	q := vInt64("query")
	vAssume(vAnd(q >= c19Base, q <= c19Base+int64(R)*60))
	boom := &UnexpectedStatusCodeError{Code: 500}
	hit := false
	s := &stater{
		Min:     1,
		Current: func(context.Context) (*State, error) { return &State{SeqNum: uint64(R), Timestamp: time.Unix(ts[R], 0)}, nil },
		State: func(_ context.Context, n uint64) (*State, error) {
			if int(n) == failAt {
				hit = true
				return nil, boom
			}
			return &State{SeqNum: n, Timestamp: time.Unix(ts[n], 0)}, nil
		},
	}
	got, err := searchTimestamp(context.Background(), s, time.Unix(q, 0))
	vReach("returned")
	if hit {
		vAssert(err == error(boom) && got == nil, "non-404-error-is-returned")
	} else {
		vAssert(err == nil, "no-error-when-failing-file-not-requested")
	}
}

// ---- layout of state files and sequence-numbered URLs

type c19Env struct {
	ds   *Datasource
	urls []string
	body []byte
	code int
	base string
}

func c19Setup() *c19Env {
	e := &c19Env{code: 200}
	e.ds = &Datasource{}
	e.base = BaseURL
	if vRange("customBase", 0, 1) == 1 {
		host := vStr("host", 2)
		vAssume(vAnd(vAnd(host[0] >= 'a', host[0] <= 'z'), vAnd(host[1] >= 'a', host[1] <= 'z')))
		e.base = "http://" + host
		e.ds.BaseURL = e.base
	}
	e.ds.Client = &http.Client{Transport: &vTransport{fn: func(req *http.Request) (*http.Response, error) {
		e.urls = append(e.urls, vReqURL(req))
		return &http.Response{StatusCode: e.code, Body: io.NopCloser(bytes.NewReader(e.body))}, nil
	}}}
	return e
}

// c19Digits: k symbolic decimal digits (first one non-zero) and their value.
func c19Digits(k int) (string, uint64) {
	s := vStr("digit", k)
	var v uint64
	for i := 0; i < k; i++ {
		vAssume(vAnd(s[i] >= '0', s[i] <= '9'))
		v = v*10 + uint64(s[i]-'0')
	}
	vAssume(s[0] != '0')
	return s, v
}

// VerifH_C19_layout: URLs are base/replication/<dir>/AAA/BBB/CCC.state.txt with the
// three zero padded groups recombining to the sequence number (state.txt /
// state.yaml for the current state); state files are parsed to the numbers written
// in them; the changeset state's sequence is the file value + 1 for the current
// state and the requested number otherwise.
func VerifH_C19_layout() {
	e := c19Setup()
	kind := vRange("kind", 0, 3)
	dir := []string{"minute", "hour", "day", "changesets"}[kind]
	current := vRange("current", 0, 1) == 1
	var n uint64
	want := ""
	if current {
		file := "state.txt"
		if kind == 3 {
			file = "state.yaml"
		}
		want = fmt.Sprintf("%s/replication/%s/%s", e.base, dir, file)
	} else {
		a, b, c := vU64("a"), vU64("b"), vU64("c")
		// the first group is not capped: sequence numbers beyond 10^9 keep all their digits
		vAssume(vAnd(a < 1<<14, vAnd(b < 1000, c < 1000)))
		n = a*1000000 + b*1000 + c
		vAssume(n != 0)
		want = fmt.Sprintf("%s/replication/%s/%03d/%03d/%03d.state.txt", e.base, dir, a, b, c)
	}
	digits, fileSeq := c19Digits(1 + 3*vRange("seqDigits", 0, vParam("maxDigitClass", 1)))
	stamp := time.Date(2016, 7, 2, 22, 46, 1, 0, time.UTC)
	noNL := vRange("noTrailingNewline", 0, 1) == 1 // the last line of a state file need not end in a newline
	var st *State
	var err error
	if kind == 3 {
		e.body = []byte("---\nlast_run: 2016-07-02 22:46:01.000000000 Z\nsequence: " + digits + "\n")
		if noNL {
			e.body = e.body[:len(e.body)-1]
		}
		if current {
			_, st, err = e.ds.CurrentChangesetState(context.Background())
		} else {
			st, err = e.ds.ChangesetState(context.Background(), ChangesetSeqNum(n))
		}
	} else {
		e.body = []byte("#Sat Jul 02 22:46:01 UTC 2016\nsequenceNumber=" + digits + "\ntxnMaxQueried=123\ntimestamp=2016-07-02T22\\:46\\:01Z\ntxnMax=456\n")
		if noNL {
			e.body = e.body[:len(e.body)-1]
		}
		switch kind {
		case 0:
			if current {
				_, st, err = e.ds.CurrentMinuteState(context.Background())
			} else {
				st, err = e.ds.MinuteState(context.Background(), MinuteSeqNum(n))
			}
		case 1:
			if current {
				_, st, err = e.ds.CurrentHourState(context.Background())
			} else {
				st, err = e.ds.HourState(context.Background(), HourSeqNum(n))
			}
		case 2:
			if current {
				_, st, err = e.ds.CurrentDayState(context.Background())
			} else {
				st, err = e.ds.DayState(context.Background(), DaySeqNum(n))
			}
		}
	}
	vReach("fetched")
	vAssert(err == nil && st != nil, "no-error")
	vAssert(len(e.urls) == 1, "one-request")
	if len(e.urls) == 1 {
		vAssert(e.urls[0] == want, "planet-server-layout-url")
	}
	if err != nil || st == nil {
		return
	}
	vAssert(st.Timestamp.Equal(stamp), "timestamp-parsed")
	if kind == 3 {
		if current {
			vAssert(st.SeqNum == fileSeq+1, "changeset-current-sequence-is-file-value-plus-one")
		} else {
			vAssert(st.SeqNum == n, "changeset-sequence-is-requested-number")
		}
	} else {
		vAssert(st.SeqNum == fileSeq, "sequence-number-parsed")
		vAssert(st.TxnMax == 456 && st.TxnMaxQueried == 123, "txn-fields-parsed")
	}
}

// VerifH_C19_status: a non-200 answer becomes UnexpectedStatusCodeError, NotFound only for 404.
func VerifH_C19_status() {
	e := c19Setup()
	e.code = vInt("status")
	vAssume(vAnd(e.code >= 100, vAnd(e.code < 600, e.code != 200)))
	var err error
	switch vRange("kind", 0, 1) {
	case 0:
		_, err = e.ds.MinuteState(context.Background(), 5)
	case 1:
		_, err = e.ds.ChangesetState(context.Background(), 2008000)
	}
	vReach("fetched")
	u, ok := err.(*UnexpectedStatusCodeError)
	vAssert(ok, "typed-status-error")
	if ok {
		vAssert(u.Code == e.code, "error-carries-code")
		vAssert(NotFound(err) == (e.code == 404), "not-found-only-for-404")
	}
}

// VerifH_C19_wrappers: each *StateAt wires its own current/numbered state requests.
func VerifH_C19_wrappers() {
	kind := vRange("kind", 0, 3)
	dir := []string{"minute", "hour", "day", "changesets"}[kind]
	e := &c19Env{}
	e.ds = &Datasource{}
	cur := uint64(3)
	min := uint64(1)
	if kind == 3 {
		if vRange("changesetDirectoryStartsAtOne", 0, 1) == 0 {
			cur, min = 2007993, 2007990 // planet.osm.org
		} else {
			cur, min = 4, 1 // a mirror / fresh server numbered from 1
		}
	}
	body := func(seq uint64, minuteOfHour int) []byte {
		if kind == 3 {
			return []byte(fmt.Sprintf("---\nlast_run: 2016-07-02 22:%02d:01.000000000 Z\nsequence: %d\n", minuteOfHour, seq))
		}
		return []byte(fmt.Sprintf("sequenceNumber=%d\ntimestamp=2016-07-02T22\\:%02d\\:01Z\n", seq, minuteOfHour))
	}
	foreign := false
	e.ds.Client = &http.Client{Transport: &vTransport{fn: func(req *http.Request) (*http.Response, error) {
		u := vReqURL(req)
		e.urls = append(e.urls, u)
		curFile := "state.txt"
		if kind == 3 {
			curFile = "state.yaml"
		}
		if u == fmt.Sprintf("%s/replication/%s/%s", BaseURL, dir, curFile) {
			seq := cur
			if kind == 3 {
				seq = cur - 1 // the yaml file is one behind
			}
			return &http.Response{StatusCode: 200, Body: io.NopCloser(bytes.NewReader(body(seq, int(cur-min)*10)))}, nil
		}
		for s := min; s <= cur; s++ {
			if u == fmt.Sprintf("%s/replication/%s/%03d/%03d/%03d.state.txt", BaseURL, dir, s/1000000, (s%1000000)/1000, s%1000) {
				return &http.Response{StatusCode: 200, Body: io.NopCloser(bytes.NewReader(body(s, int(s-min)*10)))}, nil
			}
		}
		if !strings.HasPrefix(u, fmt.Sprintf("%s/replication/%s/", BaseURL, dir)) {
			foreign = true
		}
		return &http.Response{StatusCode: 404, Body: io.NopCloser(bytes.NewReader(nil))}, nil
	}}}
	// query: 22:15:00 lies between state min+1 (22:10:01) and min+2 (22:20:01)
	q := time.Date(2016, 7, 2, 22, 15, 0, 0, time.UTC)
	var got uint64
	var err error
	switch kind {
	case 0:
		var n MinuteSeqNum
		n, _, err = e.ds.MinuteStateAt(context.Background(), q)
		got = uint64(n)
	case 1:
		var n HourSeqNum
		n, _, err = e.ds.HourStateAt(context.Background(), q)
		got = uint64(n)
	case 2:
		var n DaySeqNum
		n, _, err = e.ds.DayStateAt(context.Background(), q)
		got = uint64(n)
	case 3:
		var n ChangesetSeqNum
		n, _, err = e.ds.ChangesetStateAt(context.Background(), q)
		got = uint64(n)
	}
	vReach("searched")
	vAssert(err == nil, "no-error")
	vAssert(!foreign, "only-files-of-its-own-kind-requested")
	vAssert(got == min+2, "first-state-at-or-after-query")
}
