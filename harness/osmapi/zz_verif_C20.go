//go:build verif

package osmapi

import (
	"context"
	"errors"
	"fmt"
	"net/http"
	"time"

	"github.com/paulmach/osm"
)

type c20Limiter struct {
	fail  bool
	log   *[]string
}

var c20LimitErr = errors.New("verif: limiter refused")

func (l *c20Limiter) Wait(context.Context) error {
	*l.log = append(*l.log, "wait")
	if l.fail {
		return c20LimitErr
	}
	return nil
}

type c20Env struct {
	ds     *Datasource
	log    []string
	urls   []string
	method string
	status int
	model  interface{}
	base   string
}

func c20Setup() *c20Env {
	e := &c20Env{}
	e.ds = &Datasource{}
	e.base = BaseURL
	if vRange("customBase", 0, 1) == 1 {
		host := vStr("host", 2)
		vAssume(vAnd(vAnd(host[0] >= 'a', host[0] <= 'z'), vAnd(host[1] >= 'a', host[1] <= 'z')))
		e.base = "http://" + host + "/api"
		e.ds.BaseURL = e.base
	} else if vRange("defaultDatasourceReconfigured", 0, 1) == 1 {
		// another datasource's configuration is none of this one's business
		DefaultDatasource.BaseURL = "http://elsewhere.example/api"
	}
	switch vRange("limiter", 0, 2) {
	case 1:
		e.ds.Limiter = &c20Limiter{log: &e.log}
	case 2:
		e.ds.Limiter = &c20Limiter{fail: true, log: &e.log}
	}
	e.status = vInt("status")
	vAssume(vAnd(e.status >= 100, e.status < 600))
	e.ds.Client = &http.Client{Transport: &vTransport{fn: func(req *http.Request) (*http.Response, error) {
		e.log = append(e.log, "do")
		e.urls = append(e.urls, vReqURL(req))
		e.method = req.Method
		return &http.Response{StatusCode: e.status, Body: vXMLBody(e.model)}, nil
	}}}
	return e
}

func c20Nodes(n int) osm.Nodes {
	var ns osm.Nodes
	for i := 0; i < n; i++ {
		ns = append(ns, &osm.Node{ID: osm.NodeID(vRange("respID", 1, 3)), Version: 1 + i, Visible: true})
	}
	return ns
}
func c20Ways(n int) osm.Ways {
	var ws osm.Ways
	for i := 0; i < n; i++ {
		ws = append(ws, &osm.Way{ID: osm.WayID(vRange("respID", 1, 3)), Version: 1 + i, Visible: true})
	}
	return ws
}
func c20Rels(n int) osm.Relations {
	var rs osm.Relations
	for i := 0; i < n; i++ {
		rs = append(rs, &osm.Relation{ID: osm.RelationID(vRange("respID", 1, 3)), Version: 1 + i, Visible: true})
	}
	return rs
}

// c20Opts: no option, At(utc time), At(time in another zone)
func c20FeatureOpts() ([]FeatureOption, string) {
	switch vRange("featureOpt", 0, 2) {
	case 1:
		return []FeatureOption{At(time.Date(2016, 1, 2, 3, 4, 5, 0, time.UTC))}, "at=2016-01-02T03:04:05Z"
	case 2:
		return []FeatureOption{At(time.Date(2016, 1, 2, 5, 4, 5, 0, time.FixedZone("X", 7200)))}, "at=2016-01-02T03:04:05Z"
	}
	return nil, ""
}

// urlOK: got equals path, plus "?"+query when the query is not empty; a dangling
// "?" or "&" left by an empty option list is tolerated.
func urlOK(got, path, query string) bool {
	if query == "" {
		return vOr(got == path, vOr(got == path+"?", got == path+"&"))
	}
	full := path + "?" + query
	return vOr(got == full, vOr(got == full+"&", got == full+"?"))
}

// c20Outcome checks status mapping / limiter / single request; returns true when the
// call is expected to have succeeded with the decoded data.
func (e *c20Env) outcome(err error, path, query string) bool {
	lim, _ := e.ds.Limiter.(*c20Limiter)
	if lim != nil && lim.fail {
		vAssert(err == c20LimitErr, "limiter-error-aborts")
		vAssert(len(e.urls) == 0, "no-request-after-limiter-error")
		return false
	}
	if len(e.urls) != 1 {
		vAssert(false, "exactly-one-request")
		return false
	}
	if lim != nil {
		vAssert(len(e.log) == 2 && e.log[0] == "wait" && e.log[1] == "do", "limiter-waited-before-request")
	}
	vAssert(e.method == "GET", "method-is-GET")
	vAssert(urlOK(e.urls[0], path, query), "documented-endpoint-url")
	switch {
	case e.status == 200:
		return true
	case e.status == 404:
		_, ok := err.(*NotFoundError)
		vAssert(ok && e.ds.NotFound(err), "404-is-not-found-error")
	case e.status == 403:
		_, ok := err.(*ForbiddenError)
		vAssert(ok && !e.ds.NotFound(err), "403-is-forbidden-error")
	case e.status == 410:
		_, ok := err.(*GoneError)
		vAssert(ok && !e.ds.NotFound(err), "410-is-gone-error")
	case e.status == 414:
		_, ok := err.(*RequestURITooLongError)
		vAssert(ok && !e.ds.NotFound(err), "414-is-uri-too-long-error")
	default:
		u, ok := err.(*UnexpectedStatusCodeError)
		vAssert(ok && !e.ds.NotFound(err), "other-status-is-unexpected-status-error")
		if ok {
			vAssert(u.Code == e.status, "unexpected-status-error-carries-code")
		}
	}
	return false
}

// VerifH_C20_elements: node / way / relation endpoints.
func VerifH_C20_elements() {
	e := c20Setup()
	ctx := context.Background()
	id := vInt64("id")
	vAssume(vAnd(id >= 0, id < 1<<62)) // ids beyond the 40 bits that packed ids can hold are still plain numbers in a URL
	ver := vInt("version")
	vAssume(vAnd(ver >= 0, ver < 1<<16))
	kind := vRange("kind", 0, 2) // node way relation
	name := []string{"node", "way", "relation"}[kind]
	n := vRange("responseElements", 0, 2)
	resp := &osm.OSM{}
	switch kind {
	case 0:
		resp.Nodes = c20Nodes(n)
	case 1:
		resp.Ways = c20Ways(n)
	case 2:
		resp.Relations = c20Rels(n)
	}
	e.model = resp
	ep := vRange("endpoint", 0, 3)
	opts, q := []FeatureOption(nil), ""
	if ep == 0 {
		opts, q = c20FeatureOpts()
	}
	var got interface{}
	var count int
	var err error
	path := ""
	single := false
	switch ep {
	case 0: // by id
		single = true
		path = fmt.Sprintf("%s/%s/%d", e.base, name, id)
		switch kind {
		case 0:
			var x *osm.Node
			x, err = e.ds.Node(ctx, osm.NodeID(id), opts...)
			if x != nil {
				got, count = osm.Nodes{x}, 1
			}
		case 1:
			var x *osm.Way
			x, err = e.ds.Way(ctx, osm.WayID(id), opts...)
			if x != nil {
				got, count = osm.Ways{x}, 1
			}
		case 2:
			var x *osm.Relation
			x, err = e.ds.Relation(ctx, osm.RelationID(id), opts...)
			if x != nil {
				got, count = osm.Relations{x}, 1
			}
		}
	case 1: // version
		single = true
		path = fmt.Sprintf("%s/%s/%d/%d", e.base, name, id, ver)
		switch kind {
		case 0:
			var x *osm.Node
			x, err = e.ds.NodeVersion(ctx, osm.NodeID(id), ver)
			if x != nil {
				got, count = osm.Nodes{x}, 1
			}
		case 1:
			var x *osm.Way
			x, err = e.ds.WayVersion(ctx, osm.WayID(id), ver)
			if x != nil {
				got, count = osm.Ways{x}, 1
			}
		case 2:
			var x *osm.Relation
			x, err = e.ds.RelationVersion(ctx, osm.RelationID(id), ver)
			if x != nil {
				got, count = osm.Relations{x}, 1
			}
		}
	case 2: // history
		path = fmt.Sprintf("%s/%s/%d/history", e.base, name, id)
		switch kind {
		case 0:
			var x osm.Nodes
			x, err = e.ds.NodeHistory(ctx, osm.NodeID(id))
			got, count = x, len(x)
		case 1:
			var x osm.Ways
			x, err = e.ds.WayHistory(ctx, osm.WayID(id))
			got, count = x, len(x)
		case 2:
			var x osm.Relations
			x, err = e.ds.RelationHistory(ctx, osm.RelationID(id))
			got, count = x, len(x)
		}
	case 3: // multi fetch
		// concrete ids, one of them beyond the 40 bits a packed id can hold
		ids := []int64{1234567890123456, 7, 0, 98765432109}[:vRange("ids", 1, 4)]
		list := ""
		for i, v := range ids {
			if i > 0 {
				list += ","
			}
			list += fmt.Sprintf("%d", v)
		}
		path = fmt.Sprintf("%s/%ss", e.base, name)
		q = fmt.Sprintf("%ss=%s", name, list)
		switch kind {
		case 0:
			var in []osm.NodeID
			for _, v := range ids {
				in = append(in, osm.NodeID(v))
			}
			var x osm.Nodes
			x, err = e.ds.Nodes(ctx, in)
			got, count = x, len(x)
		case 1:
			var in []osm.WayID
			for _, v := range ids {
				in = append(in, osm.WayID(v))
			}
			var x osm.Ways
			x, err = e.ds.Ways(ctx, in)
			got, count = x, len(x)
		case 2:
			var in []osm.RelationID
			for _, v := range ids {
				in = append(in, osm.RelationID(v))
			}
			var x osm.Relations
			x, err = e.ds.Relations(ctx, in)
			got, count = x, len(x)
		}
	}
	vReach("called")
	if !e.outcome(err, path, q) {
		vAssert(err != nil, "error-returned")
		vAssert(count == 0, "no-data-with-error")
		return
	}
	if single && n != 1 {
		vAssert(err != nil && count == 0, "single-element-call-rejects-other-counts")
		return
	}
	vAssert(err == nil, "no-error-on-200")
	switch kind {
	case 0:
		vAssert(vSame(got, resp.Nodes), "exactly-the-response-elements")
	case 1:
		vAssert(vSame(got, resp.Ways), "exactly-the-response-elements")
	case 2:
		vAssert(vSame(got, resp.Relations), "exactly-the-response-elements")
	}
}

// VerifH_C20_related: ways/relations of an element, full, map, changesets, notes, user.
func VerifH_C20_related() {
	e := c20Setup()
	ctx := context.Background()
	id := vInt64("id")
	vAssume(vAnd(id >= 0, id < 1<<62)) // ids beyond the 40 bits that packed ids can hold are still plain numbers in a URL
	ep := vRange("endpoint", 0, 11)
	opts, q := []FeatureOption(nil), ""
	if ep <= 5 {
		opts, q = c20FeatureOpts()
	}
	resp := &osm.OSM{Nodes: osm.Nodes{{ID: 5, Version: 1, Visible: true}}}
	for i := 0; i < vRange("ways", 0, 2); i++ {
		resp.Ways = append(resp.Ways, &osm.Way{ID: osm.WayID(i + 1), Version: 1, Visible: true})
	}
	if vRange("rels", 0, 1) == 1 {
		resp.Relations = osm.Relations{{ID: 9, Version: 2, Visible: true}}
	}
	e.model = resp
	var err error
	path := ""
	okData := true
	has := false
	switch ep {
	case 0:
		path = fmt.Sprintf("%s/node/%d/ways", e.base, id)
		x, er := e.ds.NodeWays(ctx, osm.NodeID(id), opts...)
		err, has = er, len(x) > 0
		okData = vSame(x, resp.Ways)
	case 1:
		path = fmt.Sprintf("%s/node/%d/relations", e.base, id)
		x, er := e.ds.NodeRelations(ctx, osm.NodeID(id), opts...)
		err, has = er, len(x) > 0
		okData = vSame(x, resp.Relations)
	case 2:
		path = fmt.Sprintf("%s/way/%d/relations", e.base, id)
		x, er := e.ds.WayRelations(ctx, osm.WayID(id), opts...)
		err, has = er, len(x) > 0
		okData = vSame(x, resp.Relations)
	case 3:
		path = fmt.Sprintf("%s/relation/%d/relations", e.base, id)
		x, er := e.ds.RelationRelations(ctx, osm.RelationID(id), opts...)
		err, has = er, len(x) > 0
		okData = vSame(x, resp.Relations)
	case 4:
		path = fmt.Sprintf("%s/way/%d/full", e.base, id)
		x, er := e.ds.WayFull(ctx, osm.WayID(id), opts...)
		err, has = er, x != nil
		if x != nil {
			okData = vSame(x, resp)
		}
	case 5:
		path = fmt.Sprintf("%s/relation/%d/full", e.base, id)
		x, er := e.ds.RelationFull(ctx, osm.RelationID(id), opts...)
		err, has = er, x != nil
		if x != nil {
			okData = vSame(x, resp)
		}
	case 6, 7:
		cs := &osm.OSM{}
		for i := 0; i < vRange("changesets", 0, 2); i++ {
			cs.Changesets = append(cs.Changesets, &osm.Changeset{ID: osm.ChangesetID(i + 1)})
		}
		e.model = cs
		path = fmt.Sprintf("%s/changeset/%d", e.base, id)
		var x *osm.Changeset
		if ep == 6 {
			x, err = e.ds.Changeset(ctx, osm.ChangesetID(id))
		} else {
			q = "include_discussion=true"
			x, err = e.ds.ChangesetWithDiscussion(ctx, osm.ChangesetID(id))
		}
		has = x != nil
		if len(cs.Changesets) == 1 {
			if x != nil {
				okData = vSame(x, cs.Changesets[0])
			}
		} else if e.status == 200 && (e.ds.Limiter == nil || !e.ds.Limiter.(*c20Limiter).fail) {
			vAssert(err != nil && x == nil, "single-element-call-rejects-other-counts")
			return
		}
	case 8:
		ch := &osm.Change{Create: &osm.OSM{Nodes: osm.Nodes{{ID: 5, Version: 1, Visible: true}}}}
		e.model = ch
		path = fmt.Sprintf("%s/changeset/%d/download", e.base, id)
		x, er := e.ds.ChangesetDownload(ctx, osm.ChangesetID(id))
		err, has = er, x != nil
		if x != nil {
			okData = vSame(x, ch)
		}
	case 9:
		ns := &osm.OSM{}
		for i := 0; i < vRange("notes", 0, 2); i++ {
			ns.Notes = append(ns.Notes, &osm.Note{ID: osm.NoteID(i + 1)})
		}
		e.model = ns
		path = fmt.Sprintf("%s/notes/%d", e.base, id)
		x, er := e.ds.Note(ctx, osm.NoteID(id))
		err, has = er, x != nil
		if len(ns.Notes) == 1 {
			if x != nil {
				okData = vSame(x, ns.Notes[0])
			}
		} else if e.status == 200 && (e.ds.Limiter == nil || !e.ds.Limiter.(*c20Limiter).fail) {
			vAssert(err != nil && x == nil, "single-element-call-rejects-other-counts")
			return
		}
	case 10:
		us := &osm.OSM{}
		for i := 0; i < vRange("users", 0, 2); i++ {
			us.Users = append(us.Users, &osm.User{ID: osm.UserID(i + 1)})
		}
		e.model = us
		path = fmt.Sprintf("%s/user/%d", e.base, id)
		x, er := e.ds.User(ctx, osm.UserID(id))
		err, has = er, x != nil
		if len(us.Users) == 1 {
			if x != nil {
				okData = vSame(x, us.Users[0])
			}
		} else if e.status == 200 && (e.ds.Limiter == nil || !e.ds.Limiter.(*c20Limiter).fail) {
			vAssert(err != nil && x == nil, "single-element-call-rejects-other-counts")
			return
		}
	case 11:
		b := &osm.Bounds{MinLat: 1.5, MaxLat: 2.5, MinLon: -3.25, MaxLon: 4}
		path = fmt.Sprintf("%s/map", e.base)
		q = "bbox=-3.250000,1.500000,4.000000,2.500000"
		x, er := e.ds.Map(ctx, b)
		err, has = er, x != nil
		if x != nil {
			okData = vSame(x, resp)
		}
	}
	vReach("called")
	if !e.outcome(err, path, q) {
		vAssert(err != nil, "error-returned")
		vAssert(!has, "no-data-with-error")
		return
	}
	vAssert(err == nil, "no-error-on-200")
	vAssert(okData, "exactly-the-response-elements")
}

// VerifH_C20_notes: the notes endpoints and their options.
func VerifH_C20_notes() {
	e := c20Setup()
	ctx := context.Background()
	ns := &osm.OSM{}
	for i := 0; i < vRange("notes", 0, 2); i++ {
		ns.Notes = append(ns.Notes, &osm.Note{ID: osm.NoteID(i + 1)})
	}
	e.model = ns
	var opts []NotesOption
	q := ""
	limit, days := vInt("limit"), vInt("days")
	vAssume(vAnd(limit >= -5, limit < 20000))
	vAssume(vAnd(days >= -1, days < 4000))
	optMode := vRange("options", 0, 3)
	if optMode&1 != 0 {
		opts = append(opts, Limit(limit))
		q += fmt.Sprintf("&limit=%d", limit)
	}
	if optMode&2 != 0 {
		opts = append(opts, MaxDaysClosed(days))
		q += fmt.Sprintf("&closed=%d", days)
	}
	var got osm.Notes
	var err error
	path := ""
	if vRange("search", 0, 1) == 0 {
		b := &osm.Bounds{MinLat: 1.5, MaxLat: 2.5, MinLon: -3.25, MaxLon: 4}
		path = fmt.Sprintf("%s/notes", e.base)
		q = "bbox=-3.250000,1.500000,4.000000,2.500000" + q
		got, err = e.ds.Notes(ctx, b, opts...)
	} else {
		path = fmt.Sprintf("%s/notes/search", e.base)
		q = "q=spam+%26+eggs" + q
		got, err = e.ds.NotesSearch(ctx, "spam & eggs", opts...)
	}
	vReach("called")
	if optMode&1 != 0 && (limit < 1 || limit > 10000) {
		vAssert(err != nil && len(e.urls) == 0 && got == nil, "invalid-limit-rejected-before-any-request")
		return
	}
	if !e.outcome(err, path, q) {
		vAssert(err != nil, "error-returned")
		vAssert(len(got) == 0, "no-data-with-error")
		return
	}
	vAssert(err == nil, "no-error-on-200")
	vAssert(vSame(got, ns.Notes), "exactly-the-response-elements")
}
