//go:build verif

package osmapi

// HTTP/XML harness runtime (v* functions are engine intrinsics; bodies are the native twin).

import (
	"bytes"
	"encoding/xml"
	"io"
	"net/http"
)

type vTransport struct {
	fn func(req *http.Request) (*http.Response, error)
}

func (t *vTransport) RoundTrip(req *http.Request) (*http.Response, error) { return t.fn(req) }

// vReqURL: the URL text the request was created with.
func vReqURL(req *http.Request) string { return req.URL.String() }

// vDocReader is a response body carrying an XML document given by its model value.
type vDocReader struct {
	model interface{}
	r     io.Reader
}

func (d *vDocReader) Read(p []byte) (int, error) { return d.r.Read(p) }
func (d *vDocReader) Close() error               { return nil }

// vXMLBody: natively the model is marshalled to XML text; symbolically the decoder
// stub hands the model to the caller of Decode. A nil model is a malformed document.
func vXMLBody(model interface{}) io.ReadCloser {
	if model == nil {
		return &vDocReader{r: bytes.NewReader([]byte("<osm><node"))}
	}
	b, err := xml.Marshal(model)
	if err != nil {
		panic(err)
	}
	return &vDocReader{model: model, r: bytes.NewReader(b)}
}
